"""Checks decided by Contract.tla (multi-handle sequential histories with an outside writer):
C04 (writes through any handle never clobber), C02 (read-through / attachment), history parts of
C01 and C17, family part of C18."""
import json
import random

from . import common, env, hist, tlc, val

INVS = ["HandlesAttached", "RootKindKept", "C11_NothingForbidden"]
PROPS = ["C17_ReadsNeverWrite", "C03_RaisingChangesNothing", "C04_Frame"]


def _consts(root_kind, nobj, maxh, size, track, histlen, fam="json"):
    return {"RootKind": f'"{root_kind}"', "Fam": f'"{fam}"', "NObj": str(nobj), "MaxH": str(maxh),
            "TrackHist": "TRUE" if track else "FALSE", "Size": f'"{size}"', "HistLen": str(histlen)}


def bfs_histories(run, root_kind, nobj, maxh, rnd, sample_k):
    """Exhaustive BFS of the small instance; TLC checks the Level-1 properties on every state/edge and
    exports every sample_k-th edge together with the shortest path that reaches it."""
    consts = _consts(root_kind, nobj, maxh, "small", True, 0)
    consts["SampleK"] = str(sample_k)
    cfg = tlc.cfg_text(init="MCInit", next_="MCNext", constants=consts,
                       invariants=INVS, properties=PROPS, constraints=["Bounded"],
                       action_constraints=["ExportPath"], view="view")
    res = tlc.run("MC_Contract", cfg, name=f"contract-bfs-{root_kind}-{nobj}-{maxh}", seed=common.seed(),
                  coverage=True)
    if not res.ok:
        run.machinery_error(f"TLC MC_Contract bfs {root_kind}: violated={res.violated} {res.errors[:2]} {res.tail(12)}")
        return []
    run.add_tlc(res, f"MC_Contract BFS small root={root_kind} NObj={nobj} MaxH={maxh}")
    out = [val.norm(h) for h in res.records("HIST")]
    kinds = {h[-1]["a"] for h in out}
    ops = {h[-1]["op"]["op"] for h in out if h[-1]["a"] == "do"}
    run.cov.setdefault("bfs_ops_sampled", {})[root_kind] = sorted(ops)
    # (vacuity is judged on TLC's coverage of the actions below, not on the random sample)
    for a in ("DoAny", "NavAny", "Drop", "Ext"):
        if res.coverage.get(a, (0, 0))[1] == 0:
            run.machinery_error(f"action {a} of Contract.tla never taken (vacuous model)")
    for h in out:
        run._distinct.add(("edge", root_kind, val.canon(h[-3:])))
    return out


def sim_histories(run, root_kind, nobj, maxh, n, length, seed):
    cfg = tlc.cfg_text(init="MCInit", next_="MCNext",
                       constants={**_consts(root_kind, nobj, maxh, "large", True, length), "SampleK": "1"},
                       invariants=INVS + ["ExportHist"], constraints=["Bounded"])
    res = tlc.run("MC_Contract", cfg, simulate=f"num={n}", depth=length + 1, seed=seed,
                  name=f"contract-sim-{root_kind}-{nobj}-{maxh}")
    if res.errors or res.violated:
        run.machinery_error(f"TLC MC_Contract simulate {root_kind}: {res.violated} {res.errors[:2]} {res.tail(12)}")
        return []
    run.add_tlc(res, f"MC_Contract simulate large root={root_kind} NObj={nobj} MaxH={maxh} num={n} len={length}")
    seen = {}
    for h in res.records("HIST"):
        h = val.norm(h)
        pre = val.canon(h[:-1])
        lst = seen.setdefault(pre, [])
        if len(lst) < 2:
            lst.append(h)
    return [h for lst in seen.values() for h in lst]


def _job(args):
    spec_name, nobj, hs, want, seed, wc = args[:6]
    buffered = args[6] if len(args) > 6 else False
    env.install()
    spec = env.spec_by_name(spec_name)
    rnd = random.Random(seed)
    out = []
    n_steps = 0
    for h in hs:
        missing = rnd.random() < 0.3
        try:
            problems, executed, diverged = hist.replay(spec, h, nobj, rnd=rnd, missing_init=missing,
                                                       write_concern=wc, want=want, buffered=buffered)
        except Exception:  # noqa: BLE001
            import traceback
            problems, executed = [{"aspect": "harness", "step": -1, "detail": traceback.format_exc(limit=8)}], 0
        n_steps += executed
        for p in problems:
            st = h[p["step"]] if 0 < p.get("step", -1) < len(h) else {}
            out.append({"cls": spec_name, "aspect": p["aspect"], "detail": p["detail"], "step": p.get("step"),
                        "buffered": buffered, "child_handle": p.get("child_handle"),
                        "inner_exit": p.get("nested_inner_context_left_after_step"),
                        "foreign_store": (p.get("first_toucher") is not None and p.get("handle_owner") is not None
                                          and p.get("first_toucher") != p.get("handle_owner")),
                        "op": (st.get("op") or {}).get("op", st.get("a")), "handle": st.get("h"),
                        "nobj": nobj, "missing_init": missing, "write_concern": wc, "history": h})
    return out, n_steps


def run_histories(run, prop, histories, root_kind, nobj, want, aspects, classes=None, wc_modes=(False,), buffered=False):
    jobs = []
    seed = common.seed()
    for spec in env.specs(kind=root_kind):
        if classes and spec.name not in classes:
            continue
        for wc in wc_modes:
            if wc and spec.backend != "json":
                continue
            if buffered and spec.strategy is None:
                continue
            for i, ch in enumerate(common.chunks(histories, 6)):
                jobs.append((spec.name, nobj, ch, want, seed * 1000 + i, wc, buffered))
    random.Random(seed).shuffle(jobs)
    res = common.pmap(_job, jobs)
    for out, n_steps in res:
        run.cov["evaluations"] += n_steps
        for v in out:
            if v["aspect"] == "harness":
                run.machinery_error(v["detail"])
            elif v["aspect"] in aspects:
                run.violation(v)
    run.cov["traces_validated_against_impl"] += len(histories) * len({j[0] for j in jobs}) * len(wc_modes)
    run.cov["classes"] = sorted(set(run.cov.get("classes", [])) | {j[0] for j in jobs})


def generic(prop, tier, nobj, maxh, want, aspects, rule, assumptions, sim_len=10, classes=None, bfs_k=500, extra=None):
    run = common.Run(prop, tier)
    run.assumptions += assumptions
    run.cov["rule"] = rule
    rnd = random.Random(common.seed())
    quick = tier == "quick"
    for rk in ("d", "l"):
        hs = bfs_histories(run, rk, nobj, maxh, rnd, bfs_k if quick else max(1, bfs_k // 20))
        hs2 = sim_histories(run, rk, nobj, maxh, 150 if quick else 1500, sim_len, common.seed() + 1)
        for h in (hs[:2] + hs2[:1]):
            run.sample([{k: v for k, v in s.items() if k != "doc"} for s in h][:12])
        run.cov.setdefault("histories", {})[rk] = {"bfs_edge_paths": len(hs), "simulated": len(hs2)}
        run_histories(run, prop, hs + hs2, rk, nobj, want, aspects, classes=classes,
                      wc_modes=(False,) if quick else (False, True))
    if extra:
        extra(run, tier)
    return run.finish()


BOUNDS = ("bounded: MC_Contract small (keys {a,b}, atoms {1,None}, depth<=2, lists<=2) explored exhaustively, every "
          "sampled edge reached by a shortest path; MC_Contract large (depth<=3, lists<=3) by tlc -simulate")
FAKES = "Redis/MongoDB/Zarr classes on in-memory fakes"


def check_C04(tier):
    return generic(
        "C04", tier, nobj=2, maxh=4, want=("ret", "raw"), aspects=("raw", "ret"),
        rule=("histories over 2 root objects on one resource plus retained nested-child handles and an outside "
              "writer, generated by TLC from Contract.tla; after every mutator through any handle the raw resource "
              "must equal the model document (the operation applied at the handle's path to the CURRENT document); "
              "distinct = distinct (state, action) edges of the BFS graph"),
        assumptions=[BOUNDS, FAKES, "handles that lost their attachment guarantee (PyOps!Destroys) are not used further",
                     "Sync.tla (Level 2, identities): exhaustive BFS of two objects + retained node objects + orphans + outside "
                     "writer to 3 steps (thorough: wider operation menu, plus random behaviours of 8 steps) with the C04/C02 statements as action properties on every edge; "
                     "sampled shortest-path behaviours replayed on all 18 classes comparing results, resource, in-memory "
                     "images (no load) and the position of every retained node object by `is`"],
        extra=sync_mechanism)


def check_C02(tier):
    return generic(
        "C02", tier, nobj=2, maxh=4, want=("ret", "raw", "family"), aspects=("ret", "raw", "family"),
        rule=("same generator as C04 with the outside writer (Ext) replacing the whole resource by any of the listed "
              "documents (null / scalar / other container kind at any position); every read through a root or a "
              "still-attached child must return the model value, every write through an attached child must "
              "persist"),
        assumptions=[BOUNDS, FAKES, "reads compared with type-exact equality; attachment lost => handle dropped",
                     "Merge.tla: the in-place merge transcribed on identity trees, checked by TLC on ALL ordered pairs of "
                     "bounded documents (130 k dict pairs quick); sampled pairs replayed with every container of the old "
                     "document retained as a child handle"],
        extra=merge_pairs)


# ------------------------------------------------------------------ Merge.tla: all (old, new) pairs
def _paths(v, p=()):
    out = []
    if v["t"] == "d":
        out.append(p)
        for k, x in (v["m"].items() if isinstance(v["m"], dict) else []):
            out += _paths(x, p + (k,))
    elif v["t"] == "l":
        out.append(p)
        for i, x in enumerate(v["s"]):
            out += _paths(x, p + (i,))
    return out


def _get(py, path):
    for s in path:
        py = py[s]
    return py


def _attached(old, new, path):
    for n in range(len(path) + 1):
        try:
            a, b = _get(old, path[:n]), _get(new, path[:n])
        except (KeyError, IndexError, TypeError):
            return False
        if not isinstance(a, (dict, list)) or type(a) is not type(b):
            return False
    return True


def merge_pair_case(spec, old_t, new_t, rnd):
    """old in the backend, handles on every container of old retained, outside writer stores new."""
    import copy
    old, new = val.to_py(old_t), val.to_py(new_t)
    res = spec.new_resource()
    problems = []
    try:
        res.write_raw(copy.deepcopy(old))
        root = res.new_object()
        handles = {}
        for p in _paths(old_t):
            o = root
            for s in p:
                o = o[s]
            handles[p] = o
        res.write_raw(copy.deepcopy(new))
        seen = root()
        if not val.same_typed(seen, new):
            problems.append(f"after the outside rewrite the root reads {seen!r}, backend holds {new!r}")
            return problems
        att = [p for p in handles if p and _attached(old, new, p)]
        for p in att:
            h = handles[p]
            try:
                got = h()
            except Exception as e:  # noqa: BLE001
                problems.append(f"read through the child handle at {p} raised {type(e).__name__}: {e}")
                continue
            want = _get(new, p)
            if not val.same_typed(got, want):
                problems.append(f"child handle at {p} reads {got!r}, backend position holds {want!r}")
        if att and not problems:
            p = rnd.choice(att)
            h = handles[p]
            exp = copy.deepcopy(new)
            tgt = _get(exp, p)
            if isinstance(tgt, dict):
                h["zz"] = [1]
                tgt["zz"] = [1]
            else:
                h.append({"zz": None})
                tgt.append({"zz": None})
            raw = res.read_raw()
            if not val.same_typed(raw, exp):
                problems.append(f"write through the still-attached child at {p} gave backend {raw!r}, expected {exp!r}")
        return problems
    finally:
        res.dispose()


def _merge_job(args):
    spec_name, pairs, seed = args
    env.install()
    spec = env.spec_by_name(spec_name)
    rnd = random.Random(seed)
    out = []
    for (o, n) in pairs:
        try:
            pr = merge_pair_case(spec, o, n, rnd)
        except Exception:  # noqa: BLE001
            import traceback
            pr = ["HARNESS " + traceback.format_exc(limit=6)]
        for p in pr:
            out.append({"cls": spec_name, "op": "outside-rewrite", "aspect": "harness" if p.startswith("HARNESS") else "ret",
                        "detail": p, "old": o, "new": n, "replay_fn": ["chk_contract", "replay_merge"]})
    return out


def replay_merge(prop, case):
    env.install()
    pr = merge_pair_case(env.spec_by_name(case["cls"]), case["old"], case["new"], random.Random(0))
    if pr:
        print(f"VIOLATION property={prop} replay={__import__('os').environ.get('VERIF_REPLAY_PATH', '-')} {pr[0]}")
        return 1
    print("not reproduced on this tree")
    return 0


def merge_pairs(run, tier):
    """Merge.tla: TLC checks the transcribed in-place merge on ALL ordered pairs of bounded documents and exports a
    sample of pairs; the harness replays them with every container of `old` retained as a child handle."""
    for kind in ("d", "l"):
        consts = {"Kind": f'"{kind}"', "Tier": '"quick"' if tier == "quick" else '"thorough"',
                  "SampleK": "60" if tier == "quick" else "40", "Dev_NoneIsNoop": "FALSE", "Dev_PyEqKeepsOld": "FALSE"}
        cfg = tlc.cfg_text(constants=consts, invariants=["C02_MergeEqualsNew", "C02_HandlesKept"],
                           action_constraints=["Export"])
        res = tlc.run("MC_Merge", cfg, name=f"merge-{kind}", seed=common.seed(), timeout=2400)
        if not res.ok:
            run.machinery_error(f"TLC MC_Merge {kind}: {res.violated} {res.errors[:2]} {res.tail(8)}")
            continue
        run.add_tlc(res, f"Merge.tla all (old,new) pairs kind={kind}")
        pairs = [(val.norm(r["old"]), val.norm(r["new"])) for r in res.records("PAIR")]
        for (o, n) in pairs:
            run._distinct.add(("pair", val.canon(o), val.canon(n)))
        jobs = []
        for spec in env.specs(kind=kind):
            for i, ch in enumerate(common.chunks(pairs, 4)):
                jobs.append((spec.name, ch, common.seed() * 100 + i))
        for out in common.pmap(_merge_job, jobs):
            for v in out:
                if v["aspect"] == "harness":
                    run.machinery_error(v["detail"])
                else:
                    run.violation(v)
        run.cov["evaluations"] += len(pairs) * len(env.specs(kind=kind))
        run.cov["traces_validated_against_impl"] += len(pairs) * len(env.specs(kind=kind))
        run.cov.setdefault("merge_pairs_replayed", {})[kind] = len(pairs)
    equal_but_differently_typed_pairs(run, tier)
    # the two deviation flags must have witnesses
    for flag, tier_ in (("Dev_NoneIsNoop", "quick"), ("Dev_PyEqKeepsOld", "eq")):
        consts = {"Kind": '"d"', "Tier": f'"{tier_}"', "SampleK": "1000000", "Dev_NoneIsNoop": "FALSE", "Dev_PyEqKeepsOld": "FALSE"}
        consts[flag] = "TRUE"
        r2 = tlc.run("MC_Merge", tlc.cfg_text(constants=consts, invariants=["C02_MergeEqualsNew"]), name=f"merge-{flag}", timeout=900)
        if r2.violated != "C02_MergeEqualsNew":
            run.machinery_error(f"deviation flag {flag} of Merge.tla has no witness")
        run.cov.setdefault("deviation_witnesses", {})[flag] = str(r2.violated)


# ------------------------------------------------------------------ Sync.tla: the mechanism on identities
def _sync_job(args):
    spec_name, hs = args
    from . import syncrun
    env.install()
    spec = env.spec_by_name(spec_name)
    out = []
    for h in hs:
        try:
            pr = syncrun.replay(spec, h)
        except Exception:  # noqa: BLE001
            import traceback
            pr = [{"aspect": "harness", "detail": traceback.format_exc(limit=6)}]
        if pr:
            lab = [s_["last"] for s_ in h[1:]]
            out.append({"cls": spec_name, "op": "sync:" + "/".join(x.get("op", {}).get("op", x["a"]) for x in lab),
                        "aspect": pr[0]["aspect"], "detail": pr[0]["detail"], "step": pr[0].get("step"),
                        "sync_history": h, "replay_fn": ["chk_contract", "replay_sync"]})
    return out


def replay_sync(prop, case):
    from . import syncrun
    env.install()
    pr = syncrun.replay(env.spec_by_name(case["cls"]), case["sync_history"])
    if pr:
        print(f"VIOLATION property={prop} replay={__import__('os').environ.get('VERIF_REPLAY_PATH', '-')} {json.dumps(pr[0], default=repr)[:600]}")
        return 1
    print("not reproduced on this tree")
    return 0


SYNC_PROPS = ["P_C04_AppliedToCurrent", "P_C02_ReadsCurrent", "P_C04_OrphanHarmless", "P_Mech_MutateMatchesApply"]


def sync_mechanism(run, tier):
    """Sync.tla: TLC checks the mechanism (load -> in-place merge -> mutate the node OBJECT -> save the root, with
    orphans) against the Level-1 statements on every edge, and exports shortest-path behaviours; the harness replays
    them on every class and compares, after every step, results, resource, in-memory images and identities."""
    quick = tier == "quick"
    base = {"Objs": '{"o1", "o2"}', "MaxId": "2", "MaxSteps": "4", "SampleK": "100" if quick else "500", "Wide": "FALSE" if quick else "TRUE",
            "Dev_NestedNoLoad": "FALSE", "Dev_NoneIsNoop": "FALSE", "Dev_PyEqKeepsOld": "FALSE"}
    for kind in ("d", "l"):
        consts = dict(base, Kind=f'"{kind}"')
        cfg = tlc.cfg_text(init="MCInit", next_="MCNext", constants=consts, constraints=["Bounded"], view="View",
                           action_constraints=["ExportPath"], properties=SYNC_PROPS, invariants=["Mech_OnePlace"])
        res = tlc.run("MC_Sync", cfg, name=f"sync-{kind}", seed=common.seed(), timeout=3000)
        if not res.ok:
            # (a violated property here is a defect of the MODEL - the code is judged by the replay below)
            run.machinery_error(f"TLC MC_Sync {kind}: {res.violated} {res.errors[:2]} {res.tail(8)}")
            continue
        run.add_tlc(res, f"Sync.tla mechanism on identities kind={kind}")
        hs = list(res.records("SYH"))
        if not quick:
            # beyond the exhaustive depth: random behaviours of 8 steps with the wide operation menu
            c2 = dict(consts, MaxSteps="9", SampleK="40", Wide="TRUE")
            cfg2 = tlc.cfg_text(init="MCInit", next_="MCNext", constants=c2, constraints=["Bounded"],
                                action_constraints=["ExportPath"], properties=SYNC_PROPS, invariants=["Mech_OnePlace"])
            r3 = tlc.run("MC_Sync", cfg2, name=f"sync-sim-{kind}", seed=common.seed() + 7, simulate="num=300", depth=9,
                         timeout=1500)
            if r3.violated or r3.errors:
                run.machinery_error(f"TLC MC_Sync simulation {kind}: {r3.violated} {r3.errors[:2]} {r3.tail(8)}")
            else:
                run.add_tlc(r3, f"Sync.tla simulation depth 9 wide menu kind={kind}")
                hs += list(r3.records("SYH"))
        acts = {}
        for h in hs:
            for s_ in h[1:]:
                la = s_["last"]
                key = la["a"] if la["a"] != "do" else ("do" if la["attached"] else "do-orphan")
                acts[key] = acts.get(key, 0) + 1
                if la.get("given"):
                    acts["node-object-as-value"] = acts.get("node-object-as-value", 0) + 1
            run._distinct.add(("sync", json.dumps([s_["last"] for s_ in h[1:]], sort_keys=True)))
        run.cov.setdefault("sync_behaviours", {})[kind] = {"replayed": len(hs), "steps_by_kind": acts}
        for need in ("do", "do-orphan", "nav", "ext", "node-object-as-value"):
            if not acts.get(need):
                run.machinery_error(f"Sync.tla kind={kind}: no exported behaviour contains a {need} step")
        if hs:
            run.sample([{k: v for k, v in s_["last"].items() if k != "before"} for s_ in hs[len(hs) // 2][1:]])
        jobs = []
        for spec in env.specs(kind=kind):
            for ch in common.chunks(hs, 6):
                jobs.append((spec.name, ch))
        for out in common.pmap(_sync_job, jobs):
            for v in out:
                if v["aspect"] == "harness":
                    run.machinery_error(v["detail"])
                else:
                    run.violation(v)
        nspec = len(env.specs(kind=kind))
        run.cov["evaluations"] += sum(len(h) - 1 for h in hs) * nspec
        run.cov["traces_validated_against_impl"] += len(hs) * nspec
    # the deviation flag must have a witness
    consts = dict(base, Kind='"d"', SampleK="1000000", MaxSteps="4", Dev_NestedNoLoad="TRUE")
    r2 = tlc.run("MC_Sync", tlc.cfg_text(init="MCInit", next_="MCNext", constants=consts, constraints=["Bounded"], view="View",
                                         properties=["P_C04_AppliedToCurrent"]), name="sync-dev", timeout=900)
    if r2.violated != "P_C04_AppliedToCurrent":
        run.machinery_error(f"deviation flag Dev_NestedNoLoad of Sync.tla has no witness ({r2.violated})")
    run.cov.setdefault("deviation_witnesses", {})["Dev_NestedNoLoad"] = str(r2.violated)
    # a write through a retained child after another handle changed only a leaf TYPE (1 -> True) must not clobber it
    equal_but_differently_typed_pairs(run, tier)


def equal_but_differently_typed_pairs(run, tier):
    """Merge.tla over the atoms {1, True}: every pair (old, new) that differs only in leaf types which Python's ==
    conflates is checked by TLC and (sampled) replayed: the reload must pick the new types up, and a write through a
    retained child afterwards must not store the stale ones back (C02 / C04 / C12)."""
    for kind in ("d", "l"):
        consts = {"Kind": f'"{kind}"', "Tier": '"eq"', "SampleK": "6" if tier == "quick" else "1",
                  "Dev_NoneIsNoop": "FALSE", "Dev_PyEqKeepsOld": "FALSE"}
        cfg = tlc.cfg_text(constants=consts, invariants=["C02_MergeEqualsNew", "C02_HandlesKept"], action_constraints=["ExportEq"])
        res = tlc.run("MC_Merge", cfg, name=f"merge-eq-{kind}", seed=common.seed(), timeout=2400)
        if not res.ok:
            run.machinery_error(f"TLC MC_Merge eq {kind}: {res.violated} {res.errors[:2]} {res.tail(8)}")
            continue
        run.add_tlc(res, f"Merge.tla pairs over {{1, True}} kind={kind}")
        pairs = [(val.norm(r["old"]), val.norm(r["new"])) for r in res.records("PAIR")]
        if not pairs:
            run.machinery_error(f"MC_Merge eq {kind}: no equal-but-differently-typed pair exported")
        for (o, n) in pairs:
            run._distinct.add(("eqpair", val.canon(o), val.canon(n)))
        jobs = []
        for spec in env.specs(kind=kind):
            for i, ch in enumerate(common.chunks(pairs, 3)):
                jobs.append((spec.name, ch, common.seed() * 100 + i))
        for out in common.pmap(_merge_job, jobs):
            for v in out:
                if v["aspect"] == "harness":
                    run.machinery_error(v["detail"])
                else:
                    run.violation(v)
        run.cov["evaluations"] += len(pairs) * len(env.specs(kind=kind))
        run.cov["traces_validated_against_impl"] += len(pairs) * len(env.specs(kind=kind))
        run.cov.setdefault("equal_but_differently_typed_pairs_replayed", {})[kind] = len(pairs)


def buffered_histories(run, prop, tier):
    """Contract.tla behaviours (two objects + retained child handles, no outside writer) executed INSIDE
    Class.buffer_backend() on the buffered classes: every result must be what it is unbuffered and the
    file must hold the model document after the exit (C05 / C06 at nested depth)."""
    rnd = random.Random(common.seed() + 5)
    for rk in ("d", "l"):
        hs = bfs_histories(run, rk, 2, 4, rnd, 700 if tier == "quick" else 60)
        hs = [h for h in hs if all(s_["a"] != "ext" for s_ in h[1:])]
        run.cov.setdefault("buffered_histories", {})[rk] = len(hs)
        run_histories(run, prop, hs, rk, 2, ("ret", "raw"), ("ret", "raw"), buffered=True)
        # one object with retained child handles (the known finding about a second object's store does not apply)
        hs1 = bfs_histories(run, rk, 1, 3, rnd, 120 if tier == "quick" else 12)
        hs1 = [h for h in hs1 if all(s_["a"] != "ext" for s_ in h[1:])]
        run_histories(run, prop, hs1, rk, 1, ("ret", "raw"), ("ret", "raw"), buffered=True)
