"""Replay of Contract.tla behaviours (multi-handle sequential histories with an outside writer)
on the real classes.  A behaviour is the list of `last` records TLC exported:
  {"a":"init","doc":D} {"a":"do","h":h,"op":O,"ret":R,"doc":D'} {"a":"nav","h":h,"s":S,"h2":h2}
  {"a":"drop","h":h} {"a":"ext","v":V}
After every step the observable projection is compared with the model.
"""
import copy

from . import env, realize, seq, val

READS = seq.realize_read_ops()


def _nav(parent, step, variant, spec):
    if step["i"] == -1:
        k = val.key_to_py(step["k"])
        if variant == 1:
            return parent.get(k)
        if variant == 2 and spec.fam == "attr" and isinstance(k, str) and k.isidentifier() \
                and not k.startswith("_") and not hasattr(type(parent), k):
            return getattr(parent, k)
        return parent[k]
    i = step["i"]
    if variant == 1:
        return list(iter(parent))[i]
    if variant == 2:
        return parent[i - len(parent)]
    return parent[i]


def _logical(raw, kind):
    if raw is env.MISSING:
        return {} if kind == "d" else []
    return raw


def replay(spec, steps, nobj, rnd=None, missing_init=False, observe=False, write_concern=False,
           want=("ret", "raw", "nowrite", "family"), buffered=False, inner_exit=None):
    """Returns (problems, steps_executed, diverged).  buffered=True: the whole history runs inside
    Class.buffer_backend() (histories without outside writes only): results must be the same, the file is
    compared with the model document after the context has exited (C05 / C06 with child handles)."""
    if buffered:
        return _replay_buffered(spec, steps, nobj, rnd, want, inner_exit)
    problems = []
    init = steps[0]
    assert init["a"] == "init"
    res = spec.new_resource()
    executed = 0
    try:
        doc0 = val.to_py(init["doc"])
        if not (missing_init and doc0 in ({}, [])):
            res.write_raw(copy.deepcopy(doc0))
        objs = {h: res.new_object(write_concern=write_concern) for h in range(1, nobj + 1)}
        paths = {h: () for h in objs}
        model_doc = doc0
        for n, st in enumerate(steps[1:], 1):
            a = st["a"]
            executed = n
            if a == "ext":
                model_doc = val.to_py(st["v"])
                res.write_raw(copy.deepcopy(model_doc))
                continue
            if a == "drop":
                objs.pop(st["h"], None)
                continue
            target = objs.get(st["h"])
            if target is None:
                problems.append({"aspect": "harness", "step": n, "detail": f"handle {st['h']} not live in replay"})
                break
            stat0 = res.stat() if hasattr(res, "stat") else None
            wc0 = res.write_count()
            if a == "nav":
                variant = rnd.randrange(3) if rnd else 0
                seq.audit_start()
                try:
                    child = _nav(target, st["s"], variant, spec)
                    err = None
                except Exception as e:  # noqa: BLE001
                    child, err = None, e
                events = seq.audit_stop()
                if err is not None or child is None:
                    if "ret" in want:
                        problems.append({"aspect": "ret", "step": n, "detail":
                                         f"navigation {st['s']} failed: {err!r} (model: container present)"})
                    break
                fam_ok = type(child).__module__ == type(target).__module__ and \
                    getattr(child, "_backend", None) == getattr(objs[min(objs)], "_backend", None)
                if "family" in want and not fam_ok:
                    problems.append({"aspect": "family", "step": n, "detail":
                                     f"nested object is {type(child).__name__} under root {type(objs[min(objs)]).__name__}"})
                if not fam_ok:
                    break
                objs[st["h2"]] = child
                if "nowrite" in want:
                    _check_nowrite(res, stat0, wc0, events, problems, n)
                continue
            # ---- a public operation
            o = st["op"]
            is_read = o["op"] in READS
            kind = "d" if hasattr(target, "keys") else "l"
            variant = rnd.randrange(realize.n_variants(kind, o)) if rnd else 0
            if is_read:
                seq.audit_start()
            obs = realize.perform(target, o, variant)
            events = seq.audit_stop() if is_read else {}
            ok, why = realize.matches(obs, st["ret"])
            new_doc = val.to_py(st["doc"])
            raw = res.read_raw()
            if not ok:
                if o["op"] == "popitem" and obs[0] == "ret":
                    # any item is allowed; the behaviour cannot be followed further
                    return problems, n, True
                if "ret" in want:
                    problems.append({"aspect": "ret", "step": n, "detail": why})
                # the rest of the behaviour depends on this step: stop
                _compare_raw(want, raw, new_doc, is_read or obs[0] == "err", problems, n, spec)
                break
            raised = obs[0] == "err"
            bad = _compare_raw(want, raw, new_doc, is_read or raised, problems, n, spec)
            if is_read and "nowrite" in want:
                _check_nowrite(res, stat0, wc0, events, problems, n)
            if bad:
                break
            model_doc = new_doc
            if observe:
                for h, ob in list(objs.items()):
                    pass
        return problems, executed, False
    finally:
        res.dispose()


def _compare_raw(want, raw, model_doc, lenient, problems, n, spec):
    if "raw" not in want:
        return False
    if raw is env.MISSING:
        if model_doc in ({}, []) and lenient:
            return False
        if model_doc in ({}, []):
            # a successful mutator on a missing resource whose result is empty (e.g. clear) must
            # still leave the logical content: missing is logically empty
            return False
        problems.append({"aspect": "raw", "step": n, "detail": f"resource missing, expected {model_doc!r}"})
        return True
    if not val.same_typed(raw, model_doc):
        problems.append({"aspect": "raw", "step": n, "detail": f"backend holds {raw!r}, expected {model_doc!r}"})
        return True
    return False


def _check_nowrite(res, stat0, wc0, events, problems, n):
    if stat0 is not None and res.stat() != stat0:
        problems.append({"aspect": "nowrite", "step": n, "detail": f"file changed by a read: {stat0} -> {res.stat()}"})
    elif wc0 is not None and res.write_count() != wc0:
        problems.append({"aspect": "nowrite", "step": n, "detail": "backend write during a read"})
    elif seq.writes_to(res, events):
        problems.append({"aspect": "nowrite", "step": n, "detail": f"file opened for writing during a read: {events}"})


# ------------------------------------------------------------------ graph export -> paths
def state_key(doc, hd):
    return val.canon(doc) + "|" + val.canon(hd)


class Graph:
    """The labelled state graph exported by MC_Contract (ExportEdge)."""

    def __init__(self):
        self.succ = {}      # key -> list of (label, key2)
        self.pred = {}      # key -> (key_prev, label)  BFS tree
        self.inits = {}
        self.nedges = 0

    def add(self, rec):
        k1 = state_key(rec["doc"], rec["hd"])
        k2 = state_key(rec["last"]["doc"], rec["hd2"])
        self.succ.setdefault(k1, []).append((val.norm(rec["last"]), k2))
        self.succ.setdefault(k2, [])
        self.nedges += 1

    def bfs(self, init_docs):
        from collections import deque
        dq = deque()
        for k, d in init_docs.items():
            self.pred[k] = None
            self.inits[k] = d
            dq.append(k)
        while dq:
            k = dq.popleft()
            for lab, k2 in self.succ.get(k, ()):
                if k2 not in self.pred:
                    self.pred[k2] = (k, lab)
                    dq.append(k2)

    def path_to(self, k):
        labs = []
        cur = k
        while self.pred.get(cur) is not None:
            prev, lab = self.pred[cur]
            labs.append(lab)
            cur = prev
        labs.reverse()
        return cur, labs


def _replay_buffered(spec, steps, nobj, rnd, want, force_inner_exit=None):
    problems = []
    res = spec.new_resource()
    env.reset_class_state()
    ctx = None
    executed = 0
    try:
        doc0 = val.to_py(steps[0]["doc"])
        res.write_raw(copy.deepcopy(doc0))
        objs = {h: res.new_object() for h in range(1, nobj + 1)}
        owner = {h: h for h in objs}           # which root object a handle belongs to
        first_toucher = None
        pre_nav = rnd.random() < 0.5 if rnd else False
        model_doc = doc0
        ctx = spec.cls.buffer_backend()
        ctx.__enter__()
        # single-object histories: half of them additionally run the first part inside obj.buffered NESTED in the
        # backend-wide context and leave that inner context at a random step - handles obtained before must stay valid
        inner, inner_exit = None, None
        if nobj == 1 and len(steps) > 2 and (force_inner_exit is not None or (rnd is not None and rnd.random() < 0.5)):
            inner = objs[1].buffered
            inner.__enter__()
            inner_exit = force_inner_exit if force_inner_exit is not None else rnd.randrange(1, len(steps) - 1)
        for n, st in enumerate(steps[1:], 1):
            a = st["a"]
            executed = n
            if inner is not None and n > inner_exit:
                inner.__exit__(None, None, None)
                inner = None
            if a == "ext":
                break
            if a == "drop":
                objs.pop(st["h"], None)
                continue
            target = objs.get(st["h"])
            if target is None:
                break
            if first_toucher is None:
                first_toucher = owner[st["h"]]
            if a == "nav":
                try:
                    child = _nav(target, st["s"], 0, spec)
                except Exception as e:  # noqa: BLE001
                    problems.append({"aspect": "ret", "step": n, "detail": f"navigation {st['s']} failed inside the buffered context: {e!r}"})
                    break
                if child is None or not hasattr(child, "_to_base"):
                    problems.append({"aspect": "ret", "step": n, "detail": f"navigation {st['s']} returned {child!r}"})
                    break
                objs[st["h2"]] = child
                owner[st["h2"]] = owner[st["h"]]
                continue
            o = st["op"]
            obs = realize.perform(target, o, 0)
            ok, why = realize.matches(obs, st["ret"])
            if not ok:
                if o["op"] == "popitem" and obs[0] == "ret":
                    return problems, n, True
                problems.append({"aspect": "ret", "step": n, "handle_owner": owner[st["h"]], "first_toucher": first_toucher,
                                 "child_handle": st["h"] > nobj, "nested_inner_context_left_after_step": inner_exit,
                                 "detail": "inside buffer_backend(): " + why})
                break
            model_doc = val.to_py(st["doc"])
        if inner is not None:
            inner.__exit__(None, None, None)
            inner = None
        ctx.__exit__(None, None, None)
        ctx = None
        if not problems:
            raw = res.read_raw()
            if not (raw is env.MISSING and model_doc in ({}, [])) and not val.same_typed(raw, model_doc):
                problems.append({"aspect": "raw", "step": executed, "first_toucher": first_toucher,
                                 "nested_inner_context_left_after_step": inner_exit,
                                 "detail": f"after leaving buffer_backend() the backend holds {raw!r}, expected {model_doc!r}"})
        return problems, executed, False
    finally:
        if ctx is not None:
            try:
                ctx.__exit__(None, None, None)
            except Exception:  # noqa: BLE001
                pass
        env.reset_class_state()
        res.dispose()
