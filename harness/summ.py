"""debug helper: run a check function and summarise violations by (op, aspect, position)."""
import collections, json, sys
from . import env
env.install()
from . import common, registry
orig = common.Run.violation
agg = collections.Counter(); ex = {}
def vio(self, case):
    k = (case.get("op"), case.get("aspect"), case.get("position"), case.get("cls","")[:40] if len(sys.argv)>3 else "")
    agg[k]+=1; ex.setdefault(k, case)
    return orig(self, case)
common.Run.violation = vio
rc = registry.CHECKS[sys.argv[1]](sys.argv[2])
for k,n in sorted(agg.items(), key=lambda x:-x[1]):
    e = ex[k]
    print(n, k, "|", e.get("detail","")[:200], "| lab=", json.dumps(e.get("lab"))[:150], "pre=", json.dumps(e.get("pre"))[:120])
print("rc", rc)
