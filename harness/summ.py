"""debug helper: run a check function and summarise violations (shortest example per group)."""
import collections, json, sys
from . import env
env.install()
from . import common, registry, val
orig = common.Run.violation
agg = collections.Counter(); ex = {}
def short(i):
    a = i.get("a")
    if a == "op":
        o = i["op"]; args = ",".join(f"{k}={json.dumps(val.to_py(v)) if isinstance(v, dict) else v}" for k, v in o.items() if k != "op")
        return f"{i.get('o','')}.{o['op']}({args})"
    if a == "ext": return f"ext({i['r']}={json.dumps(val.to_py(i['v']))})"
    if a in ("enterB", "setcap"): return f"{a}({i['c']})"
    if a == "enterO": return f"enterO({i['o']})"
    return a
def vio(self, case):
    k = (case.get("op"), case.get("aspect") or case.get("failing_clause"), case.get("position") or case.get("strategy"), case.get("kind"), case.get("scen"))
    agg[k]+=1
    size = len(case.get("inputs") or case.get("history") or [])
    if k not in ex or size < ex[k][0]: ex[k] = (size, case)
    return orig(self, case)
common.Run.violation = vio
rc = registry.CHECKS[sys.argv[1]](sys.argv[2])
for k,n in sorted(agg.items(), key=lambda x:-x[1]):
    e = ex[k][1]
    if "inputs" in e:
        init = {f: (json.dumps(val.to_py(d)), e["init"]["ex"][f]) for f, d in e["init"]["docs"].items()}
        ob = e.get("observed") or {}
        obs = {"ret": ob.get("ret"), "errs": ob.get("errs"), "kind": ob.get("kind"), "size": ob.get("size"), "cap": ob.get("cap"),
               "files": {f: (json.dumps(val.to_py(v["doc"])) if v["doc"]["t"] in "dl" else v["doc"], v["ex"], v["w"]) for f, v in (ob.get("files") or {}).items()}}
        print(n, k, e["cls"], "| init", init, "|", " ; ".join(short(i) for i in e["inputs"]), "| OBS", json.dumps(obs)[:300], "|", e.get("aborted"))
    elif "program" in e:
        hist = " ".join((f"{h['t']}:call({h['op']['op']})" if h["e"] == "call" else f"{h['t']}:ret({json.dumps(val.to_py(h['ret'])) if h['ret']['t'] not in ('!','keys','items','self') else h['ret'].get('e', h['ret']['t'])})") for h in e["history"])
        print(n, k[:2], e["op"], "|", str(e.get("detail"))[:260], "| HIST", hist[:300], "| FINAL", json.dumps(val.to_py(e["final"]))[:120] if e.get("final") and e["final"]["t"] in "dl" else e.get("final"))
    else:
        print(n, k, "|", str(e.get("detail"))[:300], "| lab=", json.dumps(e.get("lab"))[:200], "pre=", json.dumps(e.get("pre"))[:150])
print("rc", rc)
