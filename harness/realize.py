"""Concrete realisations of the abstract operations of spec/PyOps.tla on real objects.

`perform(target, o, variant, pool, builtin)` executes operation record `o` (as exported by TLC:
{"op": ..., "k": ..., "i": ..., "x": tagged value, ...}) on `target` (a synced collection, a
nested child of one, or - for the CPython cross-validation - a built-in dict/list) and returns
an observation ("ret", python_value) | ("err", exception) .

`matches(obs, ret, target)` decides whether an observation is the model result `ret`.
"""
import copy
from collections.abc import Mapping, Sequence

from . import val

NONE = val.NONE


_ARGS = None   # when set (dict), every argument object handed to the collection is remembered here


def _arg(o, name, pool, tuples=False):
    if _ARGS is not None and ("given", name) in _ARGS:
        return _ARGS[("given", name)]
    x = val.to_py(o[name], pool, tuples)
    if _ARGS is not None:
        _ARGS[name] = x
    return x


def _slice(o):
    f = lambda z: None if z == NONE else z  # noqa: E731
    return slice(f(o["i"]), f(o["j"]), f(o["st"]))


def n_variants(kind, o):
    op = o["op"]
    if kind == "d":
        return {"setitem": 2, "update": 3, "get": 2, "pop": 2, "iter": 3, "keys": 2,
                "contains": 2, "setdefault": 2, "len": 2, "eq": 2, "ne": 2}.get(op, 1)
    return {"extend": 3, "iadd": 2, "pop": 2, "iter": 2, "contains": 2, "len": 2,
            "append": 2, "getitem": 2}.get(op, 1)


def perform(target, o, variant=0, pool=None, builtin=False, args=None):
    """args: optional dict; ("given", name) entries override an argument with a prepared object (e.g. a
    synced collection), and the argument objects actually passed are stored under their names."""
    global _ARGS
    _ARGS = args
    try:
        return ("ret", _do(target, o, variant, pool, builtin))
    except BaseException as e:  # noqa: BLE001 - every exception class is an observation
        if isinstance(e, (KeyboardInterrupt, SystemExit, MemoryError)):
            raise
        return ("err", e)
    finally:
        _ARGS = None


def _do(t, o, variant, pool, builtin):
    op = o["op"]
    is_map = isinstance(t, Mapping)
    if is_map:
        k = val.key_to_py(o["k"]) if "k" in o else None
        if op == "getitem":
            return t[k]
        if op == "setitem":
            x = _arg(o, "x", pool)
            if variant == 1:
                return t.__setitem__(k, x)
            t[k] = x
            return None
        if op == "delitem":
            del t[k]
            return None
        if op == "contains":
            return (k in t) if variant == 0 else t.__contains__(k)
        if op == "len":
            return len(t) if variant == 0 else t.__len__()
        if op == "iter":
            if variant == 0:
                return ("keys", list(iter(t)))
            if variant == 1:
                return ("keys", [x for x in t])
            return ("keys", list(t.keys()))
        if op == "keys":
            return ("keys", list(t.keys()) if variant == 0 else sorted(t.keys(), key=repr))
        if op == "values":
            return ("bag", list(t.values()))
        if op == "items":
            return ("items", list(t.items()))
        if op == "get":
            y = _arg(o, "y", pool)
            if y is None and variant == 1:
                return t.get(k)
            return t.get(k, y)
        if op == "pop":
            y = _arg(o, "y", pool)
            if y is None and variant == 1 and not builtin:
                return t.pop(k)
            return t.pop(k, y)
        if op == "popitem":
            return t.popitem()
        if op == "clear":
            return t.clear()
        if op == "update":
            x = _arg(o, "x", pool)
            if variant == 1 and isinstance(x, dict):
                return t.update(list(x.items()))
            if variant == 2 and isinstance(x, dict) and all(isinstance(q, str) for q in x):
                return t.update(**x)
            return t.update(x)
        if op == "setdefault":
            y = _arg(o, "y", pool)
            if y is None and variant == 1:
                return t.setdefault(k)
            return t.setdefault(k, y)
        if op == "eq":
            x = _arg(o, "x", pool)
            return (t == x) if variant == 0 else (x == t)
        if op == "ne":
            x = _arg(o, "x", pool)
            return (t != x) if variant == 0 else (x != t)
        if op == "reset":
            x = _arg(o, "x", pool)
            if builtin:
                if not isinstance(x, dict):
                    raise ValueError("not a mapping")
                t.clear()
                t.update(x)
                return None
            return t.reset(x)
        if op == "call":
            return copy.deepcopy(t) if builtin else t()
        raise NotImplementedError(op)
    # ---- sequence ----
    if op == "getitem":
        return t[o["i"]] if variant == 0 else t.__getitem__(o["i"])
    if op == "getslice":
        return t[_slice(o)]
    if op == "setitem":
        t[o["i"]] = _arg(o, "x", pool)
        return None
    if op == "setslice":
        t[_slice(o)] = _arg(o, "x", pool)
        return None
    if op == "delitem":
        del t[o["i"]]
        return None
    if op == "delslice":
        del t[_slice(o)]
        return None
    if op == "len":
        return len(t) if variant == 0 else t.__len__()
    if op == "iter":
        return list(iter(t)) if variant == 0 else [x for x in t]
    if op == "contains":
        x = _arg(o, "x", pool)
        return (x in t) if variant == 0 else t.__contains__(x)
    if op == "reversed":
        return list(reversed(t))
    if op == "index":
        return t.index(_arg(o, "x", pool))
    if op == "count":
        return t.count(_arg(o, "x", pool))
    if op == "append":
        x = _arg(o, "x", pool, tuples=(variant == 1 and not builtin))
        return t.append(x)
    if op == "extend":
        x = _arg(o, "x", pool)
        if variant == 1 and isinstance(x, list):
            return t.extend(iter(x))
        if variant == 2 and isinstance(x, list):
            return t.extend(tuple(x))
        return t.extend(x)
    if op == "iadd":
        x = _arg(o, "x", pool)
        if variant == 1 and isinstance(x, list):
            x = tuple(x) if not builtin else x
        r = t.__iadd__(x)
        return ("self", r is t)
    if op == "insert":
        return t.insert(o["i"], _arg(o, "x", pool))
    if op == "pop":
        if o["i"] == NONE:
            return t.pop() if variant == 0 else t.pop(-1)
        return t.pop(o["i"])
    if op == "remove":
        return t.remove(_arg(o, "x", pool))
    if op == "reverse":
        return t.reverse()
    if op == "clear":
        return t.clear()
    if op == "reset":
        x = _arg(o, "x", pool)
        if builtin:
            if not isinstance(x, list):
                raise ValueError("not a sequence")
            t[:] = x
            return None
        return t.reset(x)
    if op in ("eq", "ne", "lt", "le", "gt", "ge"):
        x = _arg(o, "x", pool)
        import operator

        return getattr(operator, op)(t, x)
    if op == "call":
        return copy.deepcopy(t) if builtin else t()
    raise NotImplementedError(op)


def err_class(e):
    for c in (KeyError, IndexError, AttributeError):
        if isinstance(e, c):
            return c.__name__
    if isinstance(e, ValueError):
        return "ValueError"
    if isinstance(e, TypeError):
        return "TypeError"
    return type(e).__name__


def to_plain(x):
    """Plain built-in data of an operation result (child collections are read through ())."""
    if hasattr(x, "_to_base") and callable(x):
        return x()
    if isinstance(x, Mapping):
        return {k: to_plain(v) for k, v in x.items()}
    if isinstance(x, (list, tuple)):
        return [to_plain(v) for v in x]
    if isinstance(x, Sequence) and not isinstance(x, (str, bytes)):
        return [to_plain(v) for v in x]
    return x


def _bag_eq(a, b):
    b = list(b)
    for x in a:
        for i, y in enumerate(b):
            if val.same_typed(x, y):
                del b[i]
                break
        else:
            return False
    return not b


def matches(obs, ret, pool=None):
    """Does observation `obs` equal model result `ret` (tagged JSON from TLC)?  -> (bool, why)."""
    try:
        return _matches(obs, ret, pool)
    except Exception as e:  # noqa: BLE001 - reading the returned child object failed
        return False, f"reading the returned value raised {type(e).__name__}: {e}"


def _matches(obs, ret, pool=None):
    kind, got = obs
    t = ret["t"]
    if t == "!":
        if kind != "err":
            return False, f"expected {ret['e']}, returned {to_plain(got)!r}"
        c = err_class(got)
        if ret["e"] == "Rejected":
            ok = isinstance(got, (TypeError, ValueError))
        else:
            ok = c == ret["e"]
        return ok, f"expected {ret['e']}, raised {type(got).__name__}: {got}"
    if kind == "err":
        return False, f"expected a result, raised {type(got).__name__}: {got}"
    if t == "keys":
        ks = sorted((val.key_to_py(k) for k in ret["ks"]), key=repr)
        ok = isinstance(got, tuple) and got[0] == "keys" and sorted(got[1], key=repr) == ks \
            and len(got[1]) == len(ks)
        return ok, f"expected keys {ks}, got {got!r}"
    if t in ("bag", "items"):
        want = val.to_py({"t": "d", "m": ret["m"]}, pool)
        if not (isinstance(got, tuple) and got[0] == t):
            return False, f"expected {t}, got {got!r}"
        g = to_plain(got[1])
        if t == "bag":
            ok = _bag_eq(g, list(want.values()))
        else:
            ok = all(isinstance(p, (list, tuple)) and len(p) == 2 for p in g) \
                and len(g) == len(want) and val.same_typed({p[0]: p[1] for p in g}, want)
        return ok, f"expected {t} of {want!r}, got {g!r}"
    if t == "self":
        ok = isinstance(got, tuple) and got[0] == "self" and got[1] is True
        return ok, f"expected the object itself, got {got!r}"
    want = val.to_py(ret, pool)
    g = to_plain(got)
    if isinstance(g, tuple):
        g = list(g)
    ok = val.same_typed(g, want)
    return ok, f"expected {want!r}, got {g!r}"


def result_is_builtin(x):
    """C16: results of (), values(), items() must be built-in data all the way down."""
    if isinstance(x, dict):
        return type(x) is dict and all(result_is_builtin(v) for v in x.values())
    if isinstance(x, (list, tuple)):
        return type(x) in (list, tuple) and all(result_is_builtin(v) for v in x)
    return type(x) in (str, int, float, bool, type(None))
