"""Checks decided by BufContract.tla: C05, C06, C07, C15 and the buffered half of C17.
TLC generates input sequences (MC_BufContract), the harness executes them on the real buffered
classes and records observations, TLC validates the recorded traces (TraceBuf)."""
import json
import os
import random
import re

from . import bufrun, common, env, tlc, val

L1_INVS = ["C15_EmptyOutside", "C15_WithinCapacity", "EntriesCovered"]
L1_PROPS = ["C05_Deferred", "C17_ReadsNeverWrite", "C07_NoSilentOverwrite"]
CLAUSES = ("ret", "files", "w", "size", "cap", "err")


def _consts(strategy, kind, scen, inst, histlen, samplek, maxnest, strict=True, fam="json"):
    return {"Strategy": f'"{strategy}"', "Kind": f'"{kind}"', "Fam": f'"{fam}"',
            "Files": "<- MCFiles", "Objs": "<- MCObjs", "FileOf": "<- MCFileOf",
            "Strict": "TRUE" if strict else "FALSE", "Scen": f'"{scen}"', "Inst": f'"{inst}"',
            "HistLen": str(histlen), "SampleK": str(samplek), "MaxNest": str(maxnest)}


def gen_bfs(run, strategy, kind, scen, target, maxnest=2, inst="tiny"):
    """Exhaustive BFS of the tiny instance: TLC checks the Level-1 properties; a second pass exports
    about `target` edges, each with the shortest input sequence reaching it."""
    def cfg(samplek, check):
        return tlc.cfg_text(init="MCInit", next_="MCNext",
                            constants=_consts(strategy, kind, scen, inst, 0, samplek, maxnest),
                            invariants=L1_INVS if check else [], properties=L1_PROPS if check else [],
                            constraints=["Bounded"], action_constraints=[] if check else ["ExportPath"],
                            view="mview")
    res = tlc.run("MC_BufContract", cfg(1, True), name=f"buf-bfs-{strategy}-{kind}-{scen}", seed=common.seed(),
                  coverage=True, timeout=1500)
    if not res.ok:
        run.machinery_error(f"TLC MC_BufContract bfs {strategy}/{kind}/{scen}: violated={res.violated} "
                            f"{res.errors[:2]} {res.tail(12)}")
        return []
    run.add_tlc(res, f"MC_BufContract BFS {inst} {strategy}/{kind}/{scen}")
    dj = res.disjuncts.get("MCNext", {})
    taken = [loc for loc, (d_, t_) in dj.items() if t_ > 0]
    run.cov.setdefault("actions_taken", {})[f"{strategy}/{kind}/{scen}"] = f"{len(taken)}/6 disjuncts of MCNext"
    if len(dj) != 6 or len(taken) != 6:
        run.machinery_error(f"vacuous model: only {len(taken)} of 6 actions of BufContract taken ({dj})")
    k = max(1, res.generated // max(1, target))
    res2 = tlc.run("MC_BufContract", cfg(k, False), name=f"buf-bfsx-{strategy}-{kind}-{scen}", seed=common.seed(),
                   timeout=1500)
    if not res2.ok:
        run.machinery_error(f"TLC MC_BufContract export {strategy}/{kind}/{scen}: {res2.errors[:2]} {res2.tail(12)}")
        return []
    return [val.norm(h) for h in res2.records("HIST")]


def gen_sim(run, strategy, kind, scen, n, length, maxnest=3):
    cfg = tlc.cfg_text(init="MCInit", next_="MCNext",
                       constants=_consts(strategy, kind, scen, "full", length, 1, maxnest),
                       invariants=L1_INVS + ["ExportHist"], constraints=["Bounded"])
    res = tlc.run("MC_BufContract", cfg, simulate=f"num={n}", depth=length + 1, seed=common.seed() + 7,
                  name=f"buf-sim-{strategy}-{kind}-{scen}", timeout=900)
    if res.errors or res.violated:
        run.machinery_error(f"TLC MC_BufContract simulate: {res.violated} {res.errors[:2]} {res.tail(12)}")
        return []
    run.add_tlc(res, f"MC_BufContract simulate full {strategy}/{kind}/{scen} num={n} len={length}")
    seen = {}
    for h in res.records("HIST"):
        h = val.norm(h)
        lst = seen.setdefault(val.canon(h[:-1]), [])
        if len(lst) < 2:
            lst.append(h)
    return [h for lst in seen.values() for h in lst]


def close_contexts(h):
    """Append the exits that close every context still open, so every trace ends outside all contexts."""
    depth = 0
    for i in h[1:]:
        if i["a"] in ("enterO", "enterB"):
            depth += 1
        elif i["a"] == "exit":
            depth -= 1
    return h + [{"a": "exit"}] * depth


def _exec_job(args):
    spec_name, scen, hs, seed = args
    env.install()
    spec = env.spec_by_name(spec_name)
    rnd = random.Random(seed)
    out = []
    for h in hs:
        try:
            out.append(bufrun.run_inputs(spec, scen, h, variant_rnd=rnd))
        except Exception:  # noqa: BLE001
            import traceback
            out.append({"harness_error": traceback.format_exc(limit=8)})
    return out


def execute(run, strategy, kind, scen, histories, attr_too=True):
    specs = [bufrun.class_for(strategy, kind, False)]
    if attr_too:
        specs.append(bufrun.class_for(strategy, kind, True))
    jobs = []
    for sp in specs:
        for i, ch in enumerate(common.chunks(histories, 8)):
            jobs.append((sp.name, scen, ch, common.seed() * 100 + i))
    traces = []
    for out in common.pmap(_exec_job, jobs):
        for t in out:
            if "harness_error" in t:
                run.machinery_error(t["harness_error"])
            else:
                traces.append(t)
    run.cov["classes"] = sorted(set(run.cov.get("classes", [])) | {s.name for s in specs})
    return traces


def validate(run, strategy, kind, scen, traces, relax="", tag="val"):
    """TLC decides each trace. Returns list of max consumed position per trace (len(ev)+1 = accepted)."""
    if not traces:
        return []
    d = tlc.scratch()
    path = os.path.join(d, f"traces-{strategy}-{kind}-{scen}-{tag}-{relax or 'strict'}.json")
    with open(path, "w") as f:
        json.dump([{"init": t["init"], "ev": t["ev"]} for t in traces], f)
    consts = {"Strategy": f'"{strategy}"', "Kind": f'"{kind}"', "Fam": '"json"',
              "Files": "<- TFiles", "Objs": "<- TObjs", "FileOf": "<- TFileOf", "Strict": "FALSE",
              "Scen": f'"{scen}"', "Relax": f'"{relax}"'}
    cfg = tlc.cfg_text(init="TInit", next_="TStep", constants=consts, invariants=["Report"])
    res = tlc.run("TraceBuf", cfg, env={"TRACE_FILE": path}, name=f"tracebuf-{strategy}-{kind}-{scen}-{tag}-{relax}",
                  timeout=1800)
    if res.errors or res.violated or res.rc != 0:
        run.machinery_error(f"TLC TraceBuf {strategy}/{kind}/{scen}: {res.violated} {res.errors[:2]} {res.tail(15)}")
        return None
    if not relax:
        run.add_tlc(res, f"TraceBuf validation {strategy}/{kind}/{scen} ({len(traces)} traces)")
    best = [0] * len(traces)
    rx = re.compile(r'^<<"AT", (\d+), (\d+)>>')
    with open(res.out_path) as f:
        for line in f:
            m = rx.match(line)
            if m:
                t, l = int(m.group(1)) - 1, int(m.group(2))
                if l > best[t]:
                    best[t] = l
    return best


def judge(run, prop, strategy, kind, scen, traces, claimed):
    best = validate(run, strategy, kind, scen, traces)
    if best is None:
        return
    rejected = [i for i, t in enumerate(traces) if best[i] < len(t["ev"]) + 1]
    run.cov["traces_validated_against_impl"] += len(traces)
    run.cov["evaluations"] += sum(len(t["ev"]) for t in traces)
    if not rejected:
        return
    # name the failing clause: which single relaxation lets the trace get further?
    sub = [traces[i] for i in rejected]
    clause = {i: [] for i in range(len(sub))}
    for c in CLAUSES:
        b2 = validate(run, strategy, kind, scen, sub, relax=c, tag="rej")
        if b2 is None:
            continue
        for j, i in enumerate(rejected):
            if b2[j] > best[i]:
                clause[j].append(c)
    for j, i in enumerate(rejected):
        t = traces[i]
        pos = best[i]   # index (1-based) of the first event that could not be matched
        ev = t["ev"][pos - 1] if 0 < pos <= len(t["ev"]) else None
        cl = clause[j] or ["other"]
        case = {"cls": t["cls"], "scen": scen, "strategy": strategy, "kind": kind,
                "failing_clause": ",".join(cl), "event_index": pos,
                "input": ev["in"] if ev else None,
                "op": (ev["in"].get("op") or {}).get("op", ev["in"]["a"]) if ev else None,
                "observed": {k: ev[k] for k in ("ret", "errs", "kind", "size", "cap", "files")} if ev else None,
                "aborted": t.get("aborted"),
                "inputs": [e["in"] for e in t["ev"][:pos]], "init": t["init"]}
        if any(c in claimed for c in cl) or (cl == ["other"]):
            run.violation(case)
        else:
            run.cov["rejected_for_unclaimed_clause"] = run.cov.get("rejected_for_unclaimed_clause", 0) + 1


def generic(prop, tier, scens, claimed, rule, sim_len=12, reads_only=False, strategies=("serialized", "memory"),
            mechanism=None):
    run = common.Run(prop, tier)
    run.cov["rule"] = rule
    run.assumptions += [
        "bounded instances of spec/MC_BufContract.tla (tiny: exhaustive BFS with sampled shortest paths; full: tlc -simulate)",
        "objects bound to one file are only used while in the same buffering state (documented restriction)",
        "outside writers always change the file detectably (mtime bumped)",
        "EncLen of BufContract.tla cross-checked against len(json.dumps(.)) on every observed document"]
    quick = tier == "quick"
    for strategy in strategies:
        for kind in ("d", "l"):
            for scen in scens:
                nest = 2 if scen in ("one", "two") else 3
                hs = []
                if scen != "multi":     # the 3-object / 2-file instance is only simulated
                    inst = "tiny" if (scen in ("one", "shared") or not quick) else "micro"
                    hs = gen_bfs(run, strategy, kind, scen, target=(400 if quick else 6000), maxnest=nest, inst=inst)
                hs += gen_sim(run, strategy, kind, scen, n=(60 if quick else 600), length=sim_len, maxnest=nest + 2)
                if reads_only:
                    hs = [h for h in hs if all(i["a"] != "op" or i["op"]["op"] in READS for i in h[1:])]
                cap_n = 900 if quick else 12000
                if len(hs) > cap_n:
                    hs = random.Random(common.seed()).sample(hs, cap_n)
                if scen == "shared" and not reads_only:
                    hs = writeback_histories(kind) + hs
                hs = [close_contexts(h) for h in hs]
                for h in hs:
                    run._distinct.add(val.canon(h))
                if hs:
                    run.sample({"strategy": strategy, "kind": kind, "scen": scen, "inputs": hs[len(hs) // 2][:14]})
                traces = execute(run, strategy, kind, scen, hs, attr_too=not quick or kind == "d")
                judge(run, prop, strategy, kind, scen, traces, claimed)
    if mechanism:
        buffer_mechanism(run, prop, tier, mechanism)
    if prop == "C06":
        from . import chk_contract
        chk_contract.buffered_histories(run, prop, tier)
    return run.finish()


def writeback_histories(kind):
    """Systematic inputs for two objects on one file inside one context: A writes, B reads the intermediate state,
    A writes the document BACK to exactly what the file holds, B reads again (and then writes something else):
    B must follow every step although the buffered bytes equal the loaded ones again."""
    S = lambda a: {"t": a}  # noqa: E731
    NONE = val.NONE
    if kind == "d":
        doc = {"t": "d", "m": {"a": S("i1")}}
        forth = [({"op": "setitem", "k": "b", "x": S("i2")}, {"op": "delitem", "k": "b"}),
                 ({"op": "setitem", "k": "a", "x": S("i2")}, {"op": "setitem", "k": "a", "x": S("i1")})]
        reads = [{"op": "call"}, {"op": "len"}]
        later = {"op": "setitem", "k": "z", "x": S("n")}
    else:
        doc = {"t": "l", "s": [S("i1")]}
        forth = [({"op": "append", "x": S("i2")}, {"op": "pop", "i": NONE}),
                 ({"op": "setitem", "i": 0, "x": S("i2")}, {"op": "setitem", "i": 0, "x": S("i1")})]
        reads = [{"op": "call"}, {"op": "len"}]
        later = {"op": "append", "x": S("n")}
    out = []
    for (w1, w2) in forth:
        for r in reads:
            for enter in ([{"a": "enterB", "c": NONE}], [{"a": "enterO", "o": "A"}, {"a": "enterO", "o": "B"}]):
                for (x, y) in (("A", "B"), ("B", "A")):
                    h = [{"a": "init", "docs": {"f1": doc}, "ex": {"f1": True}}] + [dict(e) for e in enter]
                    h += [{"a": "op", "o": x, "op": w1}, {"a": "op", "o": y, "op": r}, {"a": "op", "o": x, "op": w2},
                          {"a": "op", "o": y, "op": r}, {"a": "op", "o": y, "op": later}, {"a": "op", "o": x, "op": {"op": "call"}}]
                    out.append(h)
                    # two buffered sections: x reads in the first; between them x writes and y undoes it UNBUFFERED
                    # (the file is byte-identical again); in the second y touches the file first, then x writes
                    h2 = [{"a": "init", "docs": {"f1": doc}, "ex": {"f1": True}}] + [dict(e) for e in enter]
                    h2 += [{"a": "op", "o": x, "op": r}] + [{"a": "exit"}] * len(enter)
                    h2 += [{"a": "op", "o": x, "op": w1}, {"a": "op", "o": y, "op": w2}] + [dict(e) for e in enter]
                    h2 += [{"a": "op", "o": y, "op": r}, {"a": "op", "o": x, "op": later}, {"a": "op", "o": y, "op": {"op": "call"}}]
                    out.append(h2)
    return out


READS = {"getitem", "call", "len", "contains", "get", "keys", "items", "iter"}


def check_C05(tier):
    return generic("C05", tier, ("one",), ("ret", "files", "w", "err"),
                   "input sequences (operations incl. clear/reset, nested obj.buffered / buffer_backend(capacity) "
                   "contexts, capacity changes) generated by TLC from BufContract for one object on one file; "
                   "executed on {Buffered,MemoryBuffered} x {Dict,List,AttrDict,AttrList}; every returned value, "
                   "every file content and whether a file was written in each step are validated by TLC against "
                   "BufContract (transparent, deferred to the outermost exit unless capacity forces a flush)")


def check_C06(tier):
    return generic("C06", tier, ("shared",), ("ret", "files", "w", "err"),
                   "as C05 with two objects bound to one file in a common buffered state (one backend-wide "
                   "context or per-object contexts), all assignments of reads/writes to the objects as generated "
                   "by TLC; the flush must keep every write; Buffer.tla (the mechanism, Level 2) is model-checked for "
                   "both strategies and the witness of every repaired defect (deviation flag) is replayed",
                   mechanism=(("serialized", "shared"), ("memory", "shared")))


def check_C07(tier):
    return generic("C07", tier, ("two", "multi"), ("files", "w", "err", "cap"),
                   "three objects on two files with an outside writer replacing files at arbitrary points; at "
                   "every context exit / forced flush TLC decides from BufContract which files must raise "
                   "(MetadataError / BufferedError naming exactly them), which must be written and which left alone")


def check_C15(tier):
    return generic("C15", tier, ("two", "one"), ("size", "cap"),
                   "reported buffer size and capacity after every step compared with BufContract (sum of encoded "
                   "bytes / number of modified files; within capacity; 0 outside contexts; capacity restored)")


# ------------------------------------------------------------------ Buffer.tla (Level 2 mechanism)
BUF_PROPS = dict(properties=["C05_Transparent", "C06_FlushWrites", "C07_NoSilentOverwrite", "C07_OutsideChangeSurvives",
                             "C17_ReadOnlyNeverWritten"],
                 invariants=["C06_BufferHoldsGold", "C15_EmptyOutside", "C15_WithinCapacity", "C15_CapacityRestored"])
BUF_FLAGS = ("Dev_SerializedOwnData", "Dev_MemFlushOwnData", "Dev_MemStoreNotFollow", "Dev_CapNotRestoredOnError",
             "Dev_LoseRegOnError", "Dev_MemKeepConflictingCopy")
# flag -> (strategy, scenario) in which it has a short witness
BUF_WITNESS = {"Dev_SerializedOwnData": ("serialized", "shared"), "Dev_MemFlushOwnData": ("memory", "shared"),
               "Dev_MemStoreNotFollow": ("memory", "one"), "Dev_CapNotRestoredOnError": ("serialized", "one"),
               "Dev_MemKeepConflictingCopy": ("memory", "one")}


def _buf_cfg(strategy, scen, maxhist, flags=(), keys='{"a", "b"}', only=None):
    c = {"Strategy": f'"{strategy}"', "Scen": f'"{scen}"', "MaxHist": str(maxhist), "Files": "<- MCFiles",
         "Objs": "<- MCObjs", "FileOf": "<- MCFileOf", "Keys": keys, "Caps": "<- MCCaps", "BigCap": "1000",
         "MaxNest": "2"}
    for f in BUF_FLAGS:
        c[f] = "TRUE" if f in flags else "FALSE"
    props = BUF_PROPS
    if only:
        props = dict(properties=[p for p in BUF_PROPS["properties"] if p in only],
                     invariants=[p for p in BUF_PROPS["invariants"] if p in only])
    return tlc.cfg_text(constants=c, constraints=["Bounded"], view="bview", **props)


# flag -> (property it violates, steps of the shortest witness)
BUF_WITNESS_PROP = {"Dev_SerializedOwnData": ("C06_FlushWrites", 4), "Dev_MemFlushOwnData": ("C06_FlushWrites", 4),
                    "Dev_MemStoreNotFollow": ("C06_BufferHoldsGold", 3), "Dev_CapNotRestoredOnError": ("C15_CapacityRestored", 6),
                    "Dev_MemKeepConflictingCopy": ("C07_OutsideChangeSurvives", 6)}


def _witness_inputs(hist, strategy):
    """Buffer.tla history -> inputs for bufrun (dict kind)."""
    capmap = {0: 0, 6: 12, 1: 1, 1000: val.NONE, 99: val.NONE}
    init = hist[0]["disk"]
    docs = {f: val.from_py({k: 1 for k in (d["doc"].get("__set__", []) if isinstance(d["doc"], dict) else [])}) for f, d in init.items()}
    out = [{"a": "init", "docs": docs, "ex": {f: True for f in docs}}]
    for h in hist[1:]:
        a = h["a"]
        if a == "op":
            k = h["k"]
            op = {"add": {"op": "setitem", "k": k, "x": {"t": "i1"}}, "del": {"op": "pop", "k": k, "y": {"t": "n"}},
                  "clear": {"op": "clear"}, "read": {"op": "call"}}[h["kind"]]
            out.append({"a": "op", "o": h["o"], "op": op})
        elif a == "enterO":
            out.append({"a": "enterO", "o": h["o"]})
        elif a == "enterB":
            out.append({"a": "enterB", "c": capmap.get(h["c"], val.NONE)})
        elif a == "setcap":
            out.append({"a": "setcap", "c": capmap.get(h["c"], 100000) if capmap.get(h["c"]) != val.NONE else 100000})
        elif a == "exit":
            out.append({"a": "exit"})
        elif a == "ext":
            out.append({"a": "ext", "r": h["r"], "v": val.from_py({k: 1 for k in h["s"].get("__set__", [])})})
    return close_contexts(out)


def buffer_mechanism(run, prop, tier, combos):
    """Model-check Buffer.tla (repaired code = all deviation flags off) and replay the witness of every deviation
    flag (= a defect that was repaired) on the real classes: TraceBuf must accept it on this tree."""
    from . import tlaval
    maxhist = 5 if tier == "quick" else 7
    for (strategy, scen) in combos:
        res = tlc.run("MC_Buffer", _buf_cfg(strategy, scen, maxhist), name=f"buffer-{strategy}-{scen}", timeout=3000)
        if not res.ok:
            run.machinery_error(f"Buffer.tla ({strategy}/{scen}, flags off) violates {res.violated}: {res.tail(6)}")
            continue
        run.add_tlc(res, f"Buffer.tla {strategy}/{scen} all deviation flags off, histories <= {maxhist}")
    for flag, (strategy, scen) in BUF_WITNESS.items():
        prop_, steps = BUF_WITNESS_PROP[flag]
        res = tlc.run("MC_Buffer", _buf_cfg(strategy, scen, steps + 1, flags=(flag,), keys='{"a"}', only=(prop_,)),
                      name=f"buffer-{flag}", timeout=900)
        if not res.violated:
            run.machinery_error(f"deviation flag {flag} of Buffer.tla has no witness within 6 steps (vacuous flag)")
            continue
        hist = tlaval.last_state_var(res.trace_text(), "hist")
        run.cov.setdefault("deviation_witnesses", {})[flag] = {"violates": res.violated, "steps": len(hist or []) - 1}
        if not hist:
            run.machinery_error(f"could not read the witness of {flag}")
            continue
        inputs = _witness_inputs(hist, strategy)
        traces = execute(run, strategy, "d", scen, [inputs], attr_too=True)
        best = validate(run, strategy, "d", scen, traces, tag=f"wit-{flag}")
        if best is None:
            continue
        for t, b in zip(traces, best):
            run.cov["traces_validated_against_impl"] += 1
            if b < len(t["ev"]) + 1:
                ev = t["ev"][b - 1] if 0 < b <= len(t["ev"]) else None
                run.violation({"cls": t["cls"], "scen": scen, "strategy": strategy, "kind": "d", "failing_clause": "witness",
                               "op": flag, "event_index": b, "input": ev["in"] if ev else None,
                               "observed": {k: ev[k] for k in ("ret", "errs", "kind", "size", "cap", "files")} if ev else None,
                               "inputs": [e["in"] for e in t["ev"][:b]], "init": t["init"], "aborted": t.get("aborted"),
                               "detail": f"the witness of repaired defect {flag} is rejected again"})
