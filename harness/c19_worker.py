"""C19 worker (own process, fake numpy installed): replays classification histories on the real resolvers
and end-to-end probes; prints a JSON report."""
import collections
import collections.abc
import json
import os
import subprocess
import sys
import warnings

os.environ["VERIF_FAKE_NUMPY"] = "1"
from . import env  # noqa: E402

env.install()
warnings.simplefilter("ignore")
L = env.lib()
import numpy as np  # noqa: E402  (the fake)


class Record(dict, collections.abc.Sequence):
    """Both a Mapping and a Sequence."""


class Neither:
    pass


class MyMap(collections.abc.Mapping):
    def __init__(self, d):
        self._d = dict(d)

    def __getitem__(self, k):
        return self._d[k]

    def __iter__(self):
        return iter(self._d)

    def __len__(self):
        return len(self._d)


class MySeq(collections.abc.Sequence):
    def __init__(self, d):
        self._d = list(d)

    def __getitem__(self, i):
        return self._d[i]

    def __len__(self):
        return len(self._d)


def concrete(ty, inst, alt=0):
    if ty == "dict":
        return [{}, {"a": 1}, collections.OrderedDict(a=1), collections.defaultdict(int), MyMap({"a": 1})][(inst + 2 * alt) % 5]
    if ty == "list":
        return [[], [1], (1, 2), collections.UserList([1]), MySeq([1]), collections.deque([1]), range(2)][(inst + 2 * alt) % 7]
    if ty == "str":
        return ["", "x", 3, 2.5, None, True, b"b", bytearray(b"q")][(inst + 2 * alt) % 8]
    if ty == "both":
        return Record({"a": 1}) if inst else Record()
    if ty == "neither":
        return [Neither(), {1, 2}, object(), 1j][(inst + 2 * alt) % 4]
    if ty == "array":
        return np.ndarray([1, 2], 1) if inst else np.ndarray(5, 0)
    if ty in ("dynmap", "dynseq"):
        # history replay: a small pool of run-time-created classes (every history starts from an empty memo)
        key = (ty, alt % 3)
        if key not in _DYN_POOL:
            _DYN_POOL[key] = type(dynamic_instance(ty, 0))
        return _DYN_POOL[key]({"a": inst} if ty == "dynmap" else [inst, 2])
    raise ValueError(ty)


_DYN_POOL = {}


_dyn_counter = [0]


def dynamic_instance(ty, inst=0):
    """An instance of a class created right now (Resolver!Birth): a Mapping class or a Sequence class."""
    _dyn_counter[0] += 1
    n = _dyn_counter[0]
    if ty == "dynmap":
        cls = type(f"DynMap{n}", (collections.abc.Mapping,), {
            "__init__": lambda self, d: setattr(self, "_d", dict(d)),
            "__getitem__": lambda self, k: self._d[k],
            "__iter__": lambda self: iter(self._d),
            "__len__": lambda self: len(self._d)})
        return cls({"a": inst})
    cls = type(f"DynSeq{n}", (collections.abc.Sequence,), {
        "__init__": lambda self, d: setattr(self, "_l", list(d)),
        "__getitem__": lambda self, i: self._l[i],
        "__len__": lambda self: len(self._l)})
    return cls([inst, 2])


def lifetime_probe(rs, rounds=2, k=100):
    """Resolver!Birth / GetType / Death / Birth at the freed address / GetType: classes that are created, classified and
    garbage-collected must not bequeath their category to classes created later."""
    import gc
    bad, calls = [], 0
    for rname, r in rs.items():
        r.type_map.clear()
        for _ in range(rounds):
            for first, second in (("dynmap", "dynseq"), ("dynseq", "dynmap")):
                objs = [dynamic_instance(first) for _ in range(k)]
                for o in objs:
                    r.get_type(o)
                    calls += 1
                del objs, o
                gc.collect()
                for j in range(k):
                    v = dynamic_instance(second)
                    got, want = r.get_type(v), truth(r, v)
                    calls += 1
                    if got != want and len(bad) < 10:
                        bad.append({"resolver": rname, "value": type(v).__name__, "got": got, "fresh": want,
                                    "history": f"{k} short-lived {first} classes classified and collected, then class #{j} of kind {second}"})
                    del v
    return bad, calls


def resolvers():
    import importlib
    out = {}
    for mod, names in (("synced_collections.data_types.synced_collection", ["_sc_resolver", "_collection_resolver"]),
                       ("synced_collections.data_types.synced_dict", ["_mapping_resolver"]),
                       ("synced_collections.data_types.synced_list", ["_sequence_resolver"]),
                       ("synced_collections.validators", ["_no_dot_in_key_type_resolver", "_json_format_validator_type_resolver"]),
                       ("synced_collections.backends.collection_json", ["_json_attr_dict_validator_type_resolver"])):
        m = importlib.import_module(mod)
        for n in names:
            out[n] = getattr(m, n)
    return out


def truth(res, v):
    """History-free answer: the first identifier function that accepts the value."""
    for name, fn in res.abstract_type_identifiers.items():
        if fn(v):
            return name
    return None


def probe_ops(v):
    """Outcomes of validation / conversion / merging for one value (used after warm-ups and in a fresh process)."""
    import tempfile
    out = {}
    for name, fn in (("json_format_validator", L.validators.json_format_validator),
                     ("require_string_key", L.validators.require_string_key),
                     ("no_dot_in_key", L.validators.no_dot_in_key)):
        for wrapper, wv in (("bare", v), ("in_dict", {"k": v}), ("in_list", [v])):
            try:
                fn(wv)
                out[f"{name}/{wrapper}"] = "ok"
            except Exception as e:  # noqa: BLE001
                out[f"{name}/{wrapper}"] = type(e).__name__
    for cls in (L.json.JSONDict, L.json.JSONAttrDict, L.json.MemoryBufferedJSONDict):
        fn = tempfile.mktemp(dir=env.scratch_dir())
        d = cls(fn)
        for how in ("setitem", "update", "setdefault", "reset"):
            try:
                if how == "setitem":
                    d["k"] = v
                elif how == "update":
                    d.update({"k": v})
                elif how == "setdefault":
                    d.pop("k", None)
                    d.setdefault("k", v)
                else:
                    d.reset({"k": v})
                with open(fn) as f:
                    out[f"{cls.__name__}/{how}"] = f.read() + " / " + type(d._data.get("k")).__name__
            except Exception as e:  # noqa: BLE001
                out[f"{cls.__name__}/{how}"] = type(e).__name__
        try:
            os.unlink(fn)
        except OSError:
            pass
    fn = tempfile.mktemp(dir=env.scratch_dir())
    lst = L.json.JSONList(fn)
    try:
        lst.append(v)
        lst.reset([v, v])
        with open(fn) as f:
            out["JSONList/append+reset"] = f.read() + " / " + type(lst._data[0]).__name__
    except Exception as e:  # noqa: BLE001
        out["JSONList/append+reset"] = type(e).__name__
    return out


POOL = [("dict", 0), ("dict", 1), ("list", 0), ("list", 1), ("str", 0), ("str", 1), ("both", 0), ("both", 1),
        ("neither", 0), ("neither", 1), ("array", 0), ("array", 1)]


def main():
    mode = sys.argv[1]
    if mode == "fresh":
        ty, inst, alt = sys.argv[2], int(sys.argv[3]), int(sys.argv[4])
        print(json.dumps(probe_ops(concrete(ty, inst, alt)), sort_keys=True))
        return
    hists = json.load(open(sys.argv[2]))
    report = {"resolver_calls": 0, "histories": len(hists), "mismatches": [], "probe_mismatches": [], "probes": 0}
    rs = resolvers()
    # (1) resolver level: every history on every module-level resolver, each starting from an empty memo
    for hi, h in enumerate(hists):
        for rname, r in rs.items():
            r.type_map.clear()
            for step, e in enumerate(h):
                v = concrete(e["ty"], e["inst"], alt=(hi + step) % 3)
                got, want = r.get_type(v), truth(r, v)
                report["resolver_calls"] += 1
                if got != want and len(report["mismatches"]) < 20:
                    report["mismatches"].append({"resolver": rname, "history": h[:step + 1], "value": repr(v)[:60],
                                                 "type": type(v).__name__, "got": got, "fresh": want})
    # (2) end to end: after accumulating warm-up histories, probe operations vs a fresh interpreter
    fresh_cache = {}

    def fresh(ty, inst, alt):
        k = (ty, inst, alt)
        if k not in fresh_cache:
            p = subprocess.run([sys.executable, "-m", "harness.c19_worker", "fresh", ty, str(inst), str(alt)],
                               capture_output=True, text=True, cwd=os.path.dirname(os.path.dirname(__file__)))
            fresh_cache[k] = json.loads(p.stdout) if p.returncode == 0 else {"error": p.stderr[-300:]}
        return fresh_cache[k]
    for r in rs.values():
        r.type_map.clear()
    step = max(1, len(hists) // 60)
    for hi in range(0, len(hists), step):
        h = hists[hi]
        for e in h:     # warm-up through the public machinery
            v = concrete(e["ty"], e["inst"], alt=hi % 3)
            try:
                probe_ops(v)
            except Exception:  # noqa: BLE001
                pass
        ty, inst = POOL[(hi // step) % len(POOL)]
        alt = (hi // step) % 2
        got = probe_ops(concrete(ty, inst, alt))
        want = fresh(ty, inst, alt)
        report["probes"] += 1
        if got != want and len(report["probe_mismatches"]) < 20:
            diff = {k: (got.get(k), want.get(k)) for k in set(got) | set(want) if got.get(k) != want.get(k)}
            report["probe_mismatches"].append({"after_history": h, "probe": [ty, inst, alt], "differs": diff})
    # (3) classes created and garbage-collected at run time
    bad, calls = lifetime_probe(rs)
    report["lifetime_mismatches"] = bad
    report["lifetime_calls"] = calls
    print("REPORT " + json.dumps(report))


if __name__ == "__main__":
    main()
