"""./check <ID> --replay FILE : re-execute one recorded violating case against the current tree."""
import json

from . import env


def replay_case(prop, case):
    env.install()
    if "lab" in case and "position" in case:
        from . import seq
        spec = env.spec_by_name(case["cls"])
        if case.get("threading_off") and hasattr(spec.cls, "disable_multithreading"):
            spec.cls.disable_multithreading()
        edge = {"pre": case["pre"], "lab": case["lab"], "outs": case["outs"]}
        pr = seq.run_edge(spec, case["position"], edge, variant=case.get("variant", 0),
                          missing=case.get("missing", False), write_concern=case.get("write_concern", False))
        pr = [p for p in pr if p["aspect"] == case.get("aspect")] or pr
        return _verdict(prop, pr)
    if "history" in case:
        from . import hist
        spec = env.spec_by_name(case["cls"])
        pr, _n, _d = hist.replay(spec, case["history"], case.get("nobj", 2), rnd=None,
                                 missing_init=case.get("missing_init", False),
                                 write_concern=case.get("write_concern", False), buffered=bool(case.get("buffered")),
                                 inner_exit=case.get("inner_exit"),
                                 want=("ret", "raw") if case.get("buffered") else ("ret", "raw", "nowrite", "family"))
        return _verdict(prop, pr)
    if "inputs" in case and "scen" in case:
        from . import bufrun, chk_buf, common
        spec = env.spec_by_name(case["cls"])
        inputs = [{"a": "init", "docs": case["init"]["docs"], "ex": case["init"]["ex"]}] + case["inputs"]
        t = bufrun.run_inputs(spec, case["scen"], inputs)
        run = common.Run(prop, "quick")
        best = chk_buf.validate(run, case["strategy"], case["kind"], case["scen"], [t], tag="replay")
        if best is None:
            print("machinery error", run.machinery_errors)
            return 2
        if best[0] < len(t["ev"]) + 1:
            print(f"VIOLATION property={prop} replay={__import__('os').environ.get('VERIF_REPLAY_PATH', '-')} trace rejected by TraceBuf at event {best[0]}: "
                  f"{json.dumps(t['ev'][best[0] - 1])[:600]}")
            return 1
        print("trace accepted: not reproduced on this tree")
        return 0
    if "program" in case:
        from . import chk_threads
        return chk_threads.replay_case(prop, case)
    if "replay_fn" in case:
        import importlib
        mod = importlib.import_module("harness." + case["replay_fn"][0])
        return getattr(mod, case["replay_fn"][1])(prop, case)
    # cases of the systematic (non-generated) parts of a check carry no input of their own: re-run that check
    import tempfile
    from . import common, registry
    print(f"case has no stand-alone replay format: re-running the quick check of {prop} on the current tree")
    tmp = tempfile.mkdtemp(prefix="verif-replay-")       # (evidence / replay files of this re-run are not kept)
    common.EVIDENCE_DIR, common.REPLAY_DIR = tmp, tmp
    try:
        return registry.CHECKS[prop]("quick")
    finally:
        import shutil
        shutil.rmtree(tmp, True)


def _verdict(prop, problems):
    if problems:
        print(f"VIOLATION property={prop} replay={__import__('os').environ.get('VERIF_REPLAY_PATH', '-')} {json.dumps(problems[0], default=repr)[:800]}")
        return 1
    print("not reproduced on this tree")
    return 0
