"""Recursive-descent parser for values printed by TLC (records, sequences, sets, functions, strings, ints, booleans)."""
import re

_tok = re.compile(r'\s*(<<|>>|\|->|:>|@@|[\[\]{}(),]|"(?:[^"\\]|\\.)*"|-?\d+|[A-Za-z_][A-Za-z0-9_]*)')


def tokenize(s):
    pos, out = 0, []
    s = s.strip()
    while pos < len(s):
        m = _tok.match(s, pos)
        if not m:
            raise ValueError(f"cannot tokenize at {s[pos:pos + 30]!r}")
        out.append(m.group(1))
        pos = m.end()
    return out


def parse(s):
    toks = tokenize(s)
    v, i = _val(toks, 0)
    return v


def _val(t, i):
    x = t[i]
    if x == "<<":
        i += 1
        out = []
        while t[i] != ">>":
            v, i = _val(t, i)
            out.append(v)
            if t[i] == ",":
                i += 1
        return out, i + 1
    if x == "{":
        i += 1
        out = []
        while t[i] != "}":
            v, i = _val(t, i)
            out.append(v)
            if t[i] == ",":
                i += 1
        return {"__set__": out}, i + 1
    if x == "[":
        i += 1
        rec = {}
        while t[i] != "]":
            k = t[i]
            assert t[i + 1] == "|->", t[i:i + 3]
            v, i = _val(t, i + 2)
            rec[k] = v
            if t[i] == ",":
                i += 1
        return rec, i + 1
    if x == "(":
        i += 1
        fn = {}
        while t[i] != ")":
            k, i = _val(t, i)
            assert t[i] == ":>"
            v, i = _val(t, i + 1)
            fn[k if not isinstance(k, (list, dict)) else str(k)] = v
            if t[i] == "@@":
                i += 1
        return fn, i + 1
    if x.startswith('"'):
        return x[1:-1].replace('\\"', '"'), i + 1
    if x == "TRUE":
        return True, i + 1
    if x == "FALSE":
        return False, i + 1
    if re.fullmatch(r"-?\d+", x):
        return int(x), i + 1
    return x, i + 1


def last_state_var(trace_text, var):
    """Value of `var` in the last state of a TLC error trace."""
    blocks = re.split(r"\nState \d+: ", trace_text)
    if len(blocks) < 2:
        return None
    last = blocks[-1]
    m = re.search(r"/\\ " + re.escape(var) + r" = (.*?)(?=\n/\\ |\n\n|\Z)", last, re.S)
    return parse(m.group(1)) if m else None
