"""Checks decided by the depth-1 operation catalogue (spec/PyOps.tla via MC_PyOps):
C03 (refinement of dict/list), C01 (write-through), C17 (reads never write) - unbuffered part,
and the catalogue-level halves of C11 / C16.
"""
import random

from . import common, env, realize, seq, tlc, val

INVARIANTS = ["C03_ErrorsChangeNothing", "C17_ReadsChangeNothing", "C11_NoForbiddenIn",
              "C11_RejectedSingleUnchanged", "C11_ForbiddenArgRejected", "KindKept", "SetThenGet",
              "LenConsistent"]


def export_edges(run, kind, fam, tier, what):
    cfg = tlc.cfg_text(constants={"Kind": f'"{kind}"', "Fam": f'"{fam}"', "Tier": f'"{tier}"'},
                       invariants=INVARIANTS, action_constraints=["Export"])
    res = tlc.run("MC_PyOps", cfg, name=f"pyops-{kind}-{fam}-{tier}")
    if not res.ok:
        run.machinery_error(f"TLC on MC_PyOps {kind}/{fam}/{tier}: violated={res.violated} "
                            f"errors={res.errors[:2]} {res.tail(15)}")
        return []
    run.add_tlc(res, what)
    edges = seq.group_edges(res.records("EDGE"))
    if not edges:
        run.machinery_error("MC_PyOps exported no edges")
    # vacuity: every operation of the menu must occur
    ops = {e["lab"]["op"] for e in edges}
    run.cov.setdefault("ops_covered", {})[kind] = sorted(ops)
    return edges


def cross_validate_builtin(run, edges, kind):
    """The reference semantics of C03 is CPython itself: PyOps must agree with dict/list."""
    bad = 0
    n = 0
    for e in edges:
        if any(o["ret"].get("e") == "Rejected" for o in e["outs"]):
            continue
        for v in range(realize.n_variants(kind, e["lab"])):
            n += 1
            pr = seq.run_edge(None, "root", e, variant=v, builtin=True)
            if pr:
                bad += 1
                if bad <= 3:
                    run.machinery_error(f"PyOps.tla disagrees with CPython on {e['lab']} "
                                        f"pre={val.to_py(e['pre'])!r}: {pr}")
    run.cov["pyops_vs_cpython_cases"] = run.cov.get("pyops_vs_cpython_cases", 0) + n
    return bad == 0


def _job(args):
    (spec_name, kind, jobs, want, threading_off) = args
    env.install()
    spec = env.spec_by_name(spec_name)
    out = []
    if threading_off and hasattr(spec.cls, "disable_multithreading"):
        spec.cls.disable_multithreading()
    try:
        for (position, edge, variant, missing, wc) in jobs:
            try:
                pr = seq.run_edge(spec, position, edge, variant=variant, missing=missing,
                                  write_concern=wc, want=want)
            except Exception as e:  # noqa: BLE001
                import traceback
                pr = [{"aspect": "harness", "detail": "harness exception: " + traceback.format_exc(limit=6)}]
            for p in pr:
                out.append({"cls": spec_name, "position": position, "op": edge["lab"]["op"],
                            "lab": edge["lab"], "pre": edge["pre"], "variant": variant,
                            "missing": missing, "write_concern": wc, "threading_off": threading_off,
                            "aspect": p["aspect"], "detail": p["detail"],
                            "outs": edge["outs"][:3]})
    finally:
        if threading_off and getattr(spec.cls, "_supports_threading", False):
            spec.cls.enable_multithreading()
    return out


ASPECT_PROP = {"ret": "C03", "content": "C03", "raw": "C01", "nowrite": "C17", "builtin_types": "C16",
               "harness": None}


def replay(run, prop, tier, fam="json", pyops_tier=None, want=None, ops_filter=None,
           positions=seq.POSITIONS, sample=None, configs=((False, False),), class_filter=None):
    rnd = random.Random(common.seed())
    pyops_tier = pyops_tier or ("thorough" if tier == "thorough" else "quick")
    total_jobs = []
    for kind in ("d", "l"):
        edges = export_edges(run, kind, fam, pyops_tier, f"MC_PyOps kind={kind} fam={fam} tier={pyops_tier}")
        if not edges:
            continue
        if fam == "json" and not cross_validate_builtin(run, edges, kind):
            continue
        if ops_filter:
            edges = [e for e in edges if ops_filter(e)]
        for e in edges:
            run.case(("edge", kind, val.canon(e["pre"]), val.canon(e["lab"])), seq.is_nontrivial(e))
        run.cov["evaluations"] -= len(edges)  # cases are counted when executed below
        for position in positions:
            rk = seq.root_kind(position, kind)
            for spec in env.specs(kind=rk):
                if class_filter and not class_filter(spec):
                    continue
                if fam == "attr" and spec.fam != "attr":
                    continue
                for (thr_off, wc) in configs:
                    if (thr_off or wc) and spec.backend != "json":
                        continue
                    jobs = []
                    for e in edges:
                        nv = realize.n_variants(kind, e["lab"])
                        vs = range(nv) if tier == "thorough" else [rnd.randrange(nv)]
                        for v in vs:
                            jobs.append((position, e, v, False, wc))
                            if seq.synced_operand_possible(e) and (tier == "thorough" or rnd.random() < 0.6):
                                jobs.append((position, e, 100 + v, False, wc))
                        if position == "root" and val.canon(e["pre"]) in (val.EMPTY_D, val.EMPTY_L):
                            jobs.append((position, e, 0, True, wc))
                    if sample is not None and len(jobs) > sample:
                        keep = [j for j in jobs if j[3]]
                        jobs = rnd.sample(jobs, sample) + keep
                    for ch in common.chunks(jobs, 4):
                        total_jobs.append((spec.name, kind, ch, want, thr_off))
    rnd.shuffle(total_jobs)
    results = common.pmap(_job, total_jobs)
    n = sum(len(j[2]) for j in total_jobs)
    run.cov["evaluations"] += n
    run.cov["traces_validated_against_impl"] += n
    run.cov["classes"] = sorted({j[0] for j in total_jobs})
    for out in results:
        for v in out:
            p = ASPECT_PROP.get(v["aspect"])
            if v["aspect"] == "harness":
                run.machinery_error(v["detail"])
            elif p == prop:
                run.violation(v)
    return n


def check_C03(tier):
    run = common.Run("C03", tier)
    run.assumptions += [
        "bounded: dict states over keys {a,b} with nested values of depth<=1; list states of length<=3; "
        "arguments/indices/slices as listed in spec/MC_PyOps.tla",
        "PyOps.tla is cross-validated against CPython dict/list on every exported edge before it is used as oracle",
        "Redis/MongoDB/Zarr classes run on in-memory fakes of the client calls the backends make",
        "PyOps models a dict as a function (popitem may return any item there; iteration compared as sets); key ORDER is "
        "decided by spec/DictOrder.tla: every edge of its state graph (3 keys, 4 operations, outside writers, reset) is "
        "replayed with the order of iteration, popitem's choice and the key order in the resource compared after every step"]
    run.cov["rule"] = ("edges = (container state, operation, arguments) of MC_PyOps enumerated by TLC; an edge is "
                       "non-trivial if it changes the content, raises, or returns something other than None; "
                       "each edge is executed on every class x position (root / nested depth 2 and 3) and the "
                       "returned value, raised exception class and resulting content are compared with the spec")
    sample = None if tier == "thorough" else 2500
    replay(run, "C03", tier, want=("ret", "content"), sample=sample)
    run.cov["exhaustive"] = tier == "thorough"
    key_order(run, tier)
    for e in run.cov.get("tlc_runs", []):
        run.sample(e)
    run.sample({"pre": {"a": 1}, "op": "pop", "k": "b", "expected": "returns default None, content unchanged"})
    return run.finish()


# ------------------------------------------------------------------ DictOrder.tla: key order
def _order_job(args):
    from . import orderrun
    spec_name, items = args
    env.install()
    spec = env.spec_by_name(spec_name)
    out = []
    for (position, h, variant) in items:
        try:
            pr = orderrun.replay(spec, position, h, variant)
        except Exception:  # noqa: BLE001
            import traceback
            pr = [{"aspect": "harness", "detail": traceback.format_exc(limit=5)}]
        for p in pr[:1]:
            out.append({"cls": spec_name, "position": position, "op": "order:" + "/".join(s_["op"] for s_ in h[1:]),
                        "aspect": p["aspect"], "detail": p["detail"], "order_history": h, "variant": variant,
                        "replay_fn": ["chk_pyops", "replay_order"]})
    return out


def replay_order(prop, case):
    from . import orderrun
    env.install()
    pr = orderrun.replay(env.spec_by_name(case["cls"]), case["position"], case["order_history"], case.get("variant", 0))
    if pr:
        print(f"VIOLATION property={prop} replay={__import__('os').environ.get('VERIF_REPLAY_PATH', '-')} {pr[0]}")
        return 1
    print("not reproduced on this tree")
    return 0


def key_order(run, tier):
    """DictOrder.tla: TLC explores the order state machine and exports (sampled) edges with shortest paths; the model is
    first compared with the built-in dict, then every behaviour is replayed on the dict classes at every position."""
    from . import orderrun
    import json as _json
    quick = tier == "quick"
    cfg = tlc.cfg_text(init="MCInit", next_="MCNext", view="View",
                       constants={"Keys": '{"a", "b", "c"}', "MaxOps": "4", "SampleK": "3" if quick else "1"},
                       invariants=["NoDuplicates", "SameKeys"], properties=["C03_FileOrderIsMemoryOrder"],
                       action_constraints=["ExportPath"])
    res = tlc.run("MC_DictOrder", cfg, name="dictorder", seed=common.seed(), timeout=900)
    if not res.ok:
        run.machinery_error(f"TLC MC_DictOrder: {res.violated} {res.errors[:2]} {res.tail(8)}")
        return
    run.add_tlc(res, "DictOrder.tla key order, 3 keys, 4 operations")
    hs = list(res.records("ORD"))
    ops = set()
    for h in hs:
        bad = orderrun.builtin_check(h)
        if bad:
            run.machinery_error("DictOrder.tla disagrees with the built-in dict: " + bad)
            return
        ops |= {s_["op"] for s_ in h[1:]}
        run._distinct.add(("order", _json.dumps([(s_["op"], s_["arg"]) for s_ in h], sort_keys=True)))
    for need in ("popitem", "iter", "ext", "reset", "update", "setdefault", "pop"):
        if need not in ops:
            run.machinery_error(f"DictOrder.tla: no exported behaviour contains {need}")
    jobs = []
    n = 0
    for position in seq.POSITIONS:
        rk = seq.root_kind(position, "d")
        for spec in env.specs(kind=rk):
            items = [(position, h, (i + len(position)) % 3) for i, h in enumerate(hs)]
            if quick:
                items = items[(hash(spec.name) % 2)::2]
            n += len(items)
            for ch in common.chunks(items, 2):
                jobs.append((spec.name, ch))
    for out in common.pmap(_order_job, jobs):
        for v in out:
            if v["aspect"] == "harness":
                run.machinery_error(v["detail"])
            else:
                run.violation(v)
    run.cov["evaluations"] += n
    run.cov["traces_validated_against_impl"] += n
    run.cov["key_order_behaviours"] = {"exported": len(hs), "replays": n, "operations": sorted(ops)}


def check_C01(tier):
    run = common.Run("C01", tier)
    run.assumptions += [
        "bounded as spec/MC_PyOps.tla; resource read independently: file bytes parsed with json.loads / "
        "the fake store's raw value",
        "Redis/MongoDB/Zarr on fakes (no servers available)",
        "configurations: default, write_concern=True, multithreading support disabled (in-place write)"]
    run.cov["rule"] = ("every mutator edge of MC_PyOps executed at root and at nested depth 2/3 on all 18 classes; "
                       "after the call returns the raw resource must equal exactly the spec's successor content "
                       "(leaf types included); an edge is non-trivial if it changes content or raises")
    mut = lambda e: e["lab"]["op"] not in seq.realize_read_ops()  # noqa: E731
    sample = None if tier == "thorough" else 1500
    replay(run, "C01", tier, want=("raw",), ops_filter=mut, sample=sample,
           configs=((False, False), (False, True), (True, False)))
    for e in run.cov.get("tlc_runs", []):
        run.sample(e)
    return run.finish()


def check_C17_unbuffered(run, tier):
    rd = lambda e: e["lab"]["op"] in seq.realize_read_ops()  # noqa: E731
    sample = None if tier == "thorough" else 800
    return replay(run, "C17", tier, want=("nowrite",), ops_filter=rd, sample=sample,
                  configs=((False, False), (True, False)))
