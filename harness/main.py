"""CLI: ./check <ID> [--tier quick|thorough] [--replay FILE]"""
import argparse
import os
import sys


def main():
    ap = argparse.ArgumentParser()
    ap.add_argument("prop")
    ap.add_argument("--tier", default=os.environ.get("VERIF_TIER", "quick"), choices=["quick", "thorough"])
    ap.add_argument("--replay")
    ap.add_argument("--seed", type=int)
    a = ap.parse_args()
    if a.seed is not None:
        os.environ["VERIF_SEED"] = str(a.seed)
    from . import env
    env.install()
    from . import registry
    fn = registry.CHECKS.get(a.prop)
    if fn is None:
        print(f"unknown check {a.prop}", file=sys.stderr)
        return 2
    if a.replay:
        return registry.replay(a.prop, a.replay)
    try:
        return fn(a.tier)
    except Exception:  # noqa: BLE001
        import traceback
        traceback.print_exc()
        return 2


if __name__ == "__main__":
    sys.exit(main())
