"""Depth-1 edge replay: every (state, operation, argument) edge of MC_PyOps executed on the real
collection classes (and on CPython's dict / list, to validate the TLA+ transcription itself).

An edge is {pre, lab, outs} with outs the set of allowed outcomes [val, ret] of the spec.
The container under test sits at a `position` inside a root collection:
   root      the root object itself
   in_dict   root = {"p": X, "z": 1}          target = root["p"]
   in_list   root = [1, X]                    target = root[1]
   deep      root = {"p": [{"q": X}]}         target = root["p"][0]["q"]   (depth 3)
"""
import copy
import os
import sys

from . import env, realize, val

POSITIONS = ("root", "in_dict", "in_list", "deep")


def wrap(position, x):
    if position == "root":
        return x
    if position == "in_dict":
        return {"p": x, "z": 1}
    if position == "in_list":
        return [1, x]
    if position == "deep":
        return {"p": [{"q": x}]}
    raise ValueError(position)


def root_kind(position, kind):
    return {"root": kind, "in_dict": "d", "in_list": "l", "deep": "d"}[position]


def navigate(obj, position):
    if position == "root":
        return obj
    if position == "in_dict":
        return obj["p"]
    if position == "in_list":
        return obj[1]
    if position == "deep":
        return obj["p"][0]["q"]


# ------------------------------------------------------------------ audit of writes (C17)
_audit = {"on": False, "paths": {}}


def _hook(event, args):
    if not _audit["on"]:
        return
    try:
        if event == "open":
            path, mode = args[0], args[1]
            if isinstance(path, (str, bytes)) and mode and any(c in str(mode) for c in "wax+"):
                _audit["paths"][os.fspath(path)] = _audit["paths"].get(os.fspath(path), 0) + 1
        elif event in ("os.rename", "os.replace"):
            dst = os.fspath(args[1])
            _audit["paths"][dst] = _audit["paths"].get(dst, 0) + 1
        elif event in ("os.remove", "os.unlink", "os.truncate"):
            p = os.fspath(args[0])
            _audit["paths"][p] = _audit["paths"].get(p, 0) + 1
    except Exception:  # noqa: BLE001
        pass


_hook_installed = False


def audit_start():
    global _hook_installed
    if not _hook_installed:
        sys.addaudithook(_hook)
        _hook_installed = True
    _audit["paths"].clear()
    _audit["on"] = True


def audit_stop():
    _audit["on"] = False
    return dict(_audit["paths"])


def writes_to(res, events):
    """Number of audited write-ish events that touched the resource's file or its directory siblings."""
    if not hasattr(res, "path"):
        return 0
    d = os.path.dirname(res.path)
    return sum(n for p, n in events.items() if os.path.dirname(os.path.abspath(p)) == d
               and os.path.basename(p).find(os.path.basename(res.path)) >= 0)


# ------------------------------------------------------------------ one edge on one class
def run_edge(spec, position, edge, variant=0, pool=None, missing=False, builtin=False,
             write_concern=False, want=("ret", "content", "raw", "nowrite", "builtin_types")):
    """Execute one edge. Returns list of problems: dicts {aspect, detail}."""
    pre_py = val.to_py(edge["pre"], pool)
    lab = edge["lab"]
    outs = edge["outs"]
    problems = []
    if builtin:
        target = copy.deepcopy(pre_py)
        obs = realize.perform(target, lab, variant, pool, builtin=True)
        ok_out = [o for o in outs if realize.matches(obs, o["ret"], pool)[0]]
        if not ok_out:
            problems.append({"aspect": "ret", "detail": realize.matches(obs, outs[0]["ret"], pool)[1]})
            return problems
        if not any(val.same_typed(target, val.to_py(o["val"], pool)) for o in ok_out):
            problems.append({"aspect": "content", "detail":
                             f"expected {val.to_py(ok_out[0]['val'], pool)!r}, got {target!r}"})
        return problems

    res = spec.new_resource()
    res2 = None
    try:
        root0 = wrap(position, pre_py)
        if not missing:
            res.write_raw(copy.deepcopy(root0))
        obj = res.new_object(write_concern=write_concern)
        target = navigate(obj, position)
        is_read = lab["op"] in realize_read_ops()
        stat0 = res.stat() if hasattr(res, "stat") else None
        wc0 = res.write_count()
        if "nowrite" in want and is_read:
            audit_start()
        args = None
        if variant >= 100:
            # the comparison operand is itself a synced collection of the same class (root or nested alike)
            variant -= 100
            res2 = spec.new_resource()
            res2.write_raw(copy.deepcopy(wrap(position, val.to_py(lab["x"], pool))))
            args = {("given", "x"): navigate(res2.new_object(), position)}
        obs = realize.perform(target, lab, variant, pool, args=args)
        events = audit_stop() if ("nowrite" in want and is_read) else {}
        raw = res.read_raw()
        matched = [o for o in outs if realize.matches(obs, o["ret"], pool)[0]]
        # key order is not part of the model (popitem may return any item there); the reference semantics of
        # C03 is CPython itself: a dict with this insertion order pops its LAST item
        if "ret" in want and lab["op"] == "popitem" and obs[0] == "ret" and isinstance(pre_py, dict) and len(pre_py) >= 2:
            last_key = list(pre_py)[-1]
            got_key = obs[1][0] if isinstance(obs[1], tuple) and obs[1] else None
            if got_key != last_key:
                problems.append({"aspect": "ret", "detail": f"popitem() removed {got_key!r}; a dict holding the keys in the "
                                                            f"order {list(pre_py)!r} removes the last one, {last_key!r}"})
        if "ret" in want and not matched:
            problems.append({"aspect": "ret", "detail": realize.matches(obs, outs[0]["ret"], pool)[1]})
        cands = matched or outs
        raised = obs[0] == "err"
        exp_roots = [wrap(position, val.to_py(o["val"], pool)) for o in cands]
        # --- backend content (C01 / C03 / C04)
        if "raw" in want:
            if raw is env.MISSING:
                # a missing resource is logically the empty container: allowed if the resource was
                # missing before and the expected content is still empty (a read, a raising operation,
                # or a mutator with nothing to do such as reverse() of an empty list)
                still_empty = any(e in ({}, []) for e in exp_roots)
                if not (missing and (is_read or raised or still_empty)):
                    problems.append({"aspect": "raw", "detail": "resource missing after the operation"})
            elif not any(val.same_typed(raw, e) for e in exp_roots):
                problems.append({"aspect": "raw", "detail": f"backend holds {raw!r}, expected {exp_roots[0]!r}"})
        # --- logical content as seen through the library
        if "content" in want:
            try:
                seen = obj()
            except Exception as e:  # noqa: BLE001
                seen = ("raised", repr(e))
            if not any(val.same_typed(seen, e) for e in exp_roots):
                problems.append({"aspect": "content", "detail": f"collection() is {seen!r}, expected {exp_roots[0]!r}"})
        # --- reads never write (C17)
        if "nowrite" in want and is_read:
            if missing and raw is not env.MISSING:
                problems.append({"aspect": "nowrite", "detail": "a read created the missing resource"})
            if stat0 is not None and res.stat() != stat0:
                problems.append({"aspect": "nowrite", "detail": f"file identity/mtime changed by a read: {stat0} -> {res.stat()}"})
            if wc0 is not None and res.write_count() != wc0:
                problems.append({"aspect": "nowrite", "detail": "backend write during a read"})
            if writes_to(res, events):
                problems.append({"aspect": "nowrite", "detail": f"file opened for writing / replaced during a read: {events}"})
        # --- results of (), values(), items() are detached built-in data (C16)
        if "builtin_types" in want and lab["op"] in ("call", "values", "items") and obs[0] == "ret":
            r = obs[1][1] if isinstance(obs[1], tuple) else obs[1]
            if not realize.result_is_builtin(r):
                problems.append({"aspect": "builtin_types", "detail": f"result contains non-built-in containers: {r!r}"})
        return problems
    finally:
        res.dispose()
        if res2 is not None:
            res2.dispose()


CMP_OPS = ("eq", "ne", "lt", "le", "gt", "ge")


def synced_operand_possible(edge):
    """Comparison with an operand of the same container kind: the operand may itself be a synced collection."""
    lab = edge["lab"]
    return lab["op"] in CMP_OPS and lab.get("x", {}).get("t") == edge["pre"]["t"]


_READS = None


def realize_read_ops():
    global _READS
    if _READS is None:
        _READS = {"getitem", "getslice", "contains", "len", "iter", "keys", "values", "items", "get",
                  "eq", "ne", "lt", "le", "gt", "ge", "call", "reversed", "index", "count", "repr"}
    return _READS


def group_edges(records):
    """Group exported EDGE records {pre, lab, out} by (pre, lab) -> {pre, lab, outs}."""
    groups = {}
    for r in records:
        key = (val.canon(r["pre"]), val.canon(r["lab"]))
        g = groups.get(key)
        if g is None:
            g = groups[key] = {"pre": val.norm(r["pre"]), "lab": val.norm(r["lab"]), "outs": []}
        g["outs"].append(val.norm(r["out"]))
    return [groups[k] for k in sorted(groups)]


def is_nontrivial(edge):
    """An edge is non-trivial if it changes the state, raises, or returns a non-None result."""
    for o in edge["outs"]:
        if val.canon(o["val"]) != val.canon(edge["pre"]):
            return True
        if o["ret"]["t"] != "n":
            return True
    return False
