"""Run TLC / SANY and read back what the harness needs: counters, verdict, exported records.

Specs export records to the harness with PrintT("TAG " \\o ToJson(rec)) from an ACTION_CONSTRAINT
or a state CONSTRAINT; `records(tag)` yields them parsed.  A single println is atomic, so exporting
with several workers is safe.
"""
import json
import os
import re
import shutil
import subprocess
import sys
import tempfile
import time

VERIF = os.path.dirname(os.path.dirname(os.path.abspath(__file__)))
SPEC = os.path.join(VERIF, "spec")
JAR = "/opt/veriftools/tla/tla2tools.jar"
CP = JAR + ":/opt/veriftools/tla/CommunityModules-deps.jar"

_scratch = None


def scratch():
    global _scratch
    if _scratch is None:
        base = "/dev/shm" if os.path.isdir("/dev/shm") and os.access("/dev/shm", os.W_OK) else None
        _scratch = tempfile.mkdtemp(prefix="verif-", dir=base)
        import atexit

        if not os.environ.get("VERIF_KEEP"):
            atexit.register(shutil.rmtree, _scratch, True)
        else:
            sys.stderr.write(f"[keeping TLC scratch {_scratch}]\n")
    return _scratch


class TLCError(RuntimeError):
    pass


class TLCResult:
    def __init__(self, out_path, rc, wall):
        self.out_path = out_path
        self.rc = rc
        self.wall = wall
        self.generated = 0
        self.distinct = 0
        self.depth = 0
        self.violated = None      # name of violated invariant / property
        self.deadlock = False
        self.errors = []
        self.coverage = {}        # action name -> (distinct, total)
        self.disjuncts = {}       # action name -> {location: (distinct, total)}  (sub-actions of a disjunction)
        self._scan()

    def _scan(self):
        re_states = re.compile(r"^(\d+) states generated, (\d+) distinct states found")
        re_depth = re.compile(r"^The depth of the complete state graph search is (\d+)")
        re_inv = re.compile(r"^Error: Invariant (\S+) is violated")
        re_prop = re.compile(r"^Error: Action property (\S+) is violated")
        re_cov = re.compile(r"^<(\w+) line \d+, col \d+ to line \d+, col \d+ of module (\w+)(?: \(([\d ]+)\))?>: (\d+):(\d+)")
        with open(self.out_path, errors="replace") as f:
            for line in f:
                if line.startswith('"'):
                    continue
                m = re_states.match(line)
                if m:
                    self.generated, self.distinct = int(m.group(1)), int(m.group(2))
                    continue
                m = re_depth.match(line)
                if m:
                    self.depth = int(m.group(1))
                    continue
                m = re_inv.match(line) or re_prop.match(line)
                if m:
                    self.violated = m.group(1).rstrip(".")
                    continue
                m = re_cov.match(line)
                if m:
                    name = m.group(1)
                    d, t = int(m.group(4)), int(m.group(5))
                    a = self.coverage.get(name, (0, 0))
                    self.coverage[name] = (a[0] + d, a[1] + t)
                    if m.group(3):
                        self.disjuncts.setdefault(name, {})[m.group(3)] = (d, t)
                    continue
                if line.startswith("Error: Deadlock reached"):
                    self.deadlock = True
                elif line.startswith("Error:") or "TLC threw an unexpected exception" in line \
                        or line.startswith("Temporal properties were violated"):
                    if "Temporal properties were violated" in line:
                        self.violated = self.violated or "TemporalProperty"
                    self.errors.append(line.strip())

    @property
    def ok(self):
        return self.rc == 0 and not self.errors and not self.violated and not self.deadlock

    def records(self, tag):
        """Yield JSON records exported as PrintT("<tag> " \\o ToJson(..))."""
        prefix = '"' + tag + " "
        with open(self.out_path, errors="replace") as f:
            for line in f:
                if line.startswith(prefix):
                    inner = json.loads(line)
                    yield json.loads(inner[len(tag) + 1:])

    def tail(self, n=40):
        with open(self.out_path, errors="replace") as f:
            lines = [ln for ln in f if not ln.startswith('"')]
        return "".join(lines[-n:])

    def trace_text(self):
        """The counterexample section of the output (states after the first Error line)."""
        out, on = [], False
        with open(self.out_path, errors="replace") as f:
            for ln in f:
                if ln.startswith("Error:"):
                    on = True
                if on and not ln.startswith('"'):
                    out.append(ln)
        return "".join(out)


def cfg_text(init="Init", next_="Next", spec=None, constants=None, invariants=(), properties=(),
             constraints=(), action_constraints=(), view=None, postcondition=None,
             check_deadlock=False, symmetry=None):
    lines = []
    if spec:
        lines.append(f"SPECIFICATION {spec}")
    else:
        lines += [f"INIT {init}", f"NEXT {next_}"]
    if constants:
        lines.append("CONSTANTS")
        for k, v in constants.items():
            lines.append(f"  {k} {v}" if v.startswith("<-") else f"  {k} = {v}")
    for i in invariants:
        lines.append(f"INVARIANT {i}")
    for p in properties:
        lines.append(f"PROPERTY {p}")
    for c in constraints:
        lines.append(f"CONSTRAINT {c}")
    for c in action_constraints:
        lines.append(f"ACTION_CONSTRAINT {c}")
    if view:
        lines.append(f"VIEW {view}")
    if postcondition:
        lines.append(f"POSTCONDITION {postcondition}")
    if symmetry:
        lines.append(f"SYMMETRY {symmetry}")
    lines.append(f"CHECK_DEADLOCK {'TRUE' if check_deadlock else 'FALSE'}")
    return "\n".join(lines) + "\n"


_counter = [0]


def run(module, cfg, workers=None, simulate=None, depth=None, seed=None, coverage=False,
        timeout=3600, env=None, extra=(), jvm=(), name=None, dfid=None):
    """Run TLC on spec/<module>.tla with the given cfg text. Returns TLCResult."""
    _counter[0] += 1
    tag = name or f"{module}-{_counter[0]}"
    d = os.path.join(scratch(), tag)
    os.makedirs(d, exist_ok=True)
    cfg_path = os.path.join(d, "model.cfg")
    with open(cfg_path, "w") as f:
        f.write(cfg)
    out_path = os.path.join(d, "tlc.out")
    if workers is None:
        workers = os.cpu_count() or 4
    cmd = ["java", "-XX:+UseParallelGC", "-Xss16m", *jvm, "-cp", CP, "tlc2.TLC", "-workers", str(workers),
           "-metadir", os.path.join(d, "meta"), "-noGenerateSpecTE", "-config", cfg_path]
    if simulate:
        cmd += ["-simulate", simulate]
    if depth:
        cmd += ["-depth", str(depth)]
    if dfid:
        cmd += ["-dfid", str(dfid)]
    if seed is not None:
        cmd += ["-seed", str(seed)]
    if coverage:
        cmd += ["-coverage", "1"]
    cmd += list(extra) + [module]
    e = dict(os.environ)
    if env:
        e.update(env)
    t0 = time.time()
    with open(out_path, "w") as out:
        try:
            p = subprocess.run(cmd, cwd=SPEC, stdout=out, stderr=subprocess.STDOUT, env=e,
                               timeout=timeout)
            rc = p.returncode
        except subprocess.TimeoutExpired:
            rc = -9
    res = TLCResult(out_path, rc, time.time() - t0)
    res.cmd = " ".join(cmd)
    if rc == -9:
        res.errors.append("TLC timeout")
    return res


def sany(module):
    p = subprocess.run(["java", "-cp", CP, "tla2sany.SANY", module + ".tla"], cwd=SPEC,
                       capture_output=True, text=True)
    ok = p.returncode == 0 and "error" not in p.stdout.lower().replace("0 errors", "")
    return ok, p.stdout + p.stderr


def require_ok(res, what):
    if not res.ok:
        sys.stderr.write(f"TLC run failed ({what}): rc={res.rc} violated={res.violated} "
                         f"deadlock={res.deadlock}\n{res.tail(60)}\n")
        raise TLCError(what)


def prove(module, deps):
    """Run the TLA+ proof system on spec/<module>.tla (with the modules it extends copied next to it).
    Returns (proved: bool, obligations: int, tail: str)."""
    import shutil
    import subprocess
    d = os.path.join(scratch(), "tlaps-" + module)
    os.makedirs(d, exist_ok=True)
    for f in list(deps) + [module]:
        shutil.copy(os.path.join(SPEC, f + ".tla"), d)
    try:
        p = subprocess.run(["tlapm", "--cleanfp", module + ".tla"], cwd=d, capture_output=True, text=True, timeout=900)
    except Exception as e:  # noqa: BLE001
        return False, 0, repr(e)
    out = p.stdout + p.stderr
    m = re.search(r"All (\d+) obligations? proved", out)
    return (p.returncode == 0 and m is not None), (int(m.group(1)) if m else 0), out[-600:]
