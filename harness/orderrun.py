"""Replay of DictOrder.tla behaviours (key order of dict-like collections) on the real classes and on the built-in
dict.  A behaviour is the list of records {op, arg, ret, ord, file}; after every step the keys as the collection
iterates them must be `ord`, the keys in the resource must be in the order `file`, and popitem must return the last key."""
import copy

from . import env, seq


def _apply(target, op, arg, variant):
    if op in ("setitem",):
        target[arg[0]] = 1
    elif op == "setdefault":
        target.setdefault(arg[0], 1)
    elif op == "delitem":
        del target[arg[0]]
    elif op == "pop":
        target.pop(arg[0])
    elif op == "popitem":
        return target.popitem()
    elif op == "update":
        if variant == 1:
            target.update([(k, 2) for k in arg])
        elif variant == 2 and all(k.isidentifier() for k in arg):
            target.update(**{k: 2 for k in arg})
        else:
            target.update({k: 2 for k in arg})
    elif op == "clear":
        target.clear()
    elif op == "iter":
        return list(iter(target))
    return None


def builtin_check(steps):
    """DictOrder.tla against CPython itself (up to the first outside write / reset, which dict does not have)."""
    d = {k: 0 for k in steps[0]["ord"]}
    for st in steps[1:]:
        if st["op"] in ("ext", "reset"):
            return None
        r = _apply(d, st["op"], st["arg"], 0)
        if st["op"] == "popitem" and [r[0]] != st["ret"]:
            return f"model popitem {st['ret']} but dict pops {r[0]!r}"
        if list(d) != st["ord"]:
            return f"after {st['op']}{st['arg']} the model holds {st['ord']} but dict holds {list(d)}"
    return None


def replay(spec, position, steps, variant=0):
    problems = []
    res = spec.new_resource()
    try:
        res.write_raw(copy.deepcopy(seq.wrap(position, {k: 0 for k in steps[0]["ord"]})))
        obj = res.new_object()
        target = seq.navigate(obj, position)
        len(target)          # DictOrder!Init: the collection has loaded the initial document (root reset() does not load)
        for n, st in enumerate(steps[1:], 1):
            op, arg = st["op"], st["arg"]
            try:
                if op == "ext":
                    res.write_raw(copy.deepcopy(seq.wrap(position, {k: 9 for k in arg})))
                    r = None
                elif op == "reset":
                    target.reset({k: 3 for k in arg})
                    r = None
                else:
                    r = _apply(target, op, arg, variant)
            except Exception as e:  # noqa: BLE001
                problems.append({"aspect": "ret", "step": n, "detail": f"{op}{arg} raised {type(e).__name__}: {e}"})
                break
            if op == "popitem" and [r[0]] != st["ret"]:
                problems.append({"aspect": "order", "step": n, "detail": f"popitem() removed {r[0]!r}; with the keys in the order "
                                                                         f"{steps[n - 1]['ord']} the last one, {st['ret'][0]!r}, goes"})
                break
            if op == "iter" and r != st["ret"]:
                problems.append({"aspect": "order", "step": n, "detail": f"iteration yields {r}, expected {st['ret']}"})
                break
            keys = list(target.keys())
            if keys != st["ord"]:
                problems.append({"aspect": "order", "step": n, "detail": f"after {op}{arg} the collection holds its keys in the order "
                                                                         f"{keys}, expected {st['ord']}"})
                break
            raw = res.read_raw()
            if raw is env.MISSING:
                raw = seq.wrap(position, {})
            at = raw if position == "root" else (raw["p"] if position == "in_dict" else (raw[1] if position == "in_list" else raw["p"][0]["q"]))
            if list(at) != st["file"]:
                problems.append({"aspect": "file-order", "step": n, "detail": f"after {op}{arg} the resource holds the keys in the order "
                                                                              f"{list(at)}, expected {st['file']}"})
                break
        return problems
    finally:
        res.dispose()
