"""Value-flow checks on the operation catalogue (MC_PyOps edges):
C11 forbidden data never gets in; C12 every JSON value round-trips; C16 no aliasing with user objects;
C17 reading never writes."""
import copy
import random

from . import chk_pyops, common, env, realize, seq, val

STORE_OPS = {"setitem", "setdefault", "update", "reset", "append", "extend", "insert", "iadd", "setslice"}
RESULT_OPS = {"call", "values", "items", "pop", "popitem"}


# ------------------------------------------------------------------ helpers
def containers_in(x, acc=None):
    """Every built-in or synced container reachable from x (x included), depth first."""
    from collections.abc import Mapping, Sequence
    acc = [] if acc is None else acc
    if isinstance(x, Mapping):
        acc.append(x)
        for k in list(x):
            try:
                containers_in(x[k], acc)
            except Exception:  # noqa: BLE001
                pass
    elif isinstance(x, (list, tuple)) or (isinstance(x, Sequence) and not isinstance(x, (str, bytes))):
        if not isinstance(x, tuple):
            acc.append(x)
        for y in list(x):
            containers_in(y, acc)
    return acc


def scribble(c):
    """Mutate a user-held container in place."""
    from collections.abc import MutableMapping
    try:
        if isinstance(c, (dict, MutableMapping)):
            c["__alias__"] = "scribble"
        else:
            c.append("__alias__")
    except Exception:  # noqa: BLE001 - detached synced children may refuse; that is fine
        pass


def has_forbidden(x, fam):
    if isinstance(x, dict):
        for k, v in x.items():
            if not isinstance(k, str) or (fam == "attr" and "." in k) or has_forbidden(v, fam):
                return True
        return False
    if isinstance(x, (list, tuple)):
        return any(has_forbidden(v, fam) for v in x)
    return not isinstance(x, (str, int, float, bool, type(None)))


def memory_image(obj):
    """No-load walk of the in-memory tree (private attribute _data), for diagnosis of C11 only."""
    d = getattr(obj, "_data", obj)
    if isinstance(d, dict):
        return {k: memory_image(v) for k, v in d.items()}
    if isinstance(d, list):
        return [memory_image(v) for v in d]
    return d


# ------------------------------------------------------------------ C16: aliasing
def alias_case(spec, edge, mode, variant=0):
    """One aliasing experiment on a dict-rooted collection {"p": pre, "src": X}. Returns problems."""
    lab, outs = edge["lab"], edge["outs"]
    pre = val.to_py(edge["pre"])
    argname = "x" if "x" in lab else ("y" if "y" in lab else None)
    problems = []
    res = spec.new_resource()
    other_res = None
    try:
        root0 = {"p": pre}
        xval = val.to_py(lab[argname]) if argname else None
        if mode == "synced_same":
            root0["src"] = copy.deepcopy(xval)
        res.write_raw(copy.deepcopy(root0))
        obj = res.new_object()
        target = obj["p"]
        args = {}
        src_obj = None
        if mode == "synced_same":
            src_obj = obj["src"]
            args[("given", argname)] = src_obj
        elif mode == "synced_other":
            other_res = spec.new_resource()
            other_res.write_raw({"src": copy.deepcopy(xval)})
            other = other_res.new_object()
            src_obj = other["src"]
            args[("given", argname)] = src_obj
        obs = realize.perform(target, lab, variant, None, args=args)
        matched = [o for o in outs if realize.matches(obs, o["ret"])[0]]
        if not matched:
            problems.append({"aspect": "ret", "detail": realize.matches(obs, outs[0]["ret"])[1] + f" (argument passed as {mode})"})
            return problems
        exp = dict(root0)
        exp["p"] = val.to_py(matched[0]["val"])
        raw = res.read_raw()
        if not val.same_typed(raw, exp):
            problems.append({"aspect": "stored", "detail": f"after the operation backend holds {raw!r}, expected {exp!r} (argument passed as {mode})"})
            return problems
        # --- now the user mutates what they hold
        if mode == "plain_arg":
            for c in containers_in(args.get(argname)):
                scribble(c)
        elif mode in ("synced_same", "synced_other"):
            # the source is a live synced collection: changing it must not change the stored copy ...
            # (a source in ANOTHER collection: every container below it, nested children included - a bulk operation
            #  that stores the source's live children by reference shows only there)
            for c in (containers_in(src_obj) if mode == "synced_other" else containers_in(src_obj)[:1]):
                scribble(c)
            if mode == "synced_same":
                exp["src"] = copy.deepcopy(xval)
                c0 = exp["src"]
                if isinstance(c0, dict):
                    c0["__alias__"] = "scribble"
                else:
                    c0.append("__alias__")
        elif mode == "result":
            got = obs[1]
            if isinstance(got, tuple) and got and got[0] in ("bag", "items"):
                got = got[1]
            for c in containers_in(got):
                scribble(c)
            if not realize.result_is_builtin(got) and lab["op"] in ("call", "values", "items"):
                problems.append({"aspect": "builtin_types", "detail": f"result of {lab['op']} is not plain built-in data: {got!r}"})
        raw2 = res.read_raw()
        seen = obj()
        if not val.same_typed(raw2, exp):
            problems.append({"aspect": "alias", "detail": f"user-side mutation ({mode}) changed the backend: {raw2!r}, expected {exp!r}"})
        if not val.same_typed(seen, exp):
            problems.append({"aspect": "alias", "detail": f"user-side mutation ({mode}) changed the collection: {seen!r}, expected {exp!r}"})
        if mode in ("synced_same", "synced_other") and not problems:
            # ... and changing the stored copy must not change the source
            dst = None
            try:
                if lab["op"] in ("setitem", "setdefault") and "k" in lab:
                    dst = target[val.key_to_py(lab["k"])]
                elif lab["op"] == "append":
                    dst = target[-1]
                elif lab["op"] == "update" and isinstance(xval, dict):
                    # bulk store: the first stored value that is a container
                    for k_, v_ in xval.items():
                        if isinstance(v_, (dict, list)):
                            dst = target[k_]
                            break
            except Exception:  # noqa: BLE001
                dst = None
            if dst is not None and containers_in(dst):
                before = src_obj()
                scribble(containers_in(dst)[0])
                after = src_obj()
                if not val.same_typed(before, after):
                    problems.append({"aspect": "alias", "detail": f"mutating the stored copy changed the source collection: {after!r}"})
        return problems
    finally:
        res.dispose()
        if other_res is not None:
            other_res.dispose()


def _alias_job(args):
    spec_name, jobs = args
    env.install()
    spec = env.spec_by_name(spec_name)
    out = []
    for (edge, mode, variant) in jobs:
        try:
            pr = alias_case(spec, edge, mode, variant)
        except Exception:  # noqa: BLE001
            import traceback
            pr = [{"aspect": "harness", "detail": traceback.format_exc(limit=6)}]
        for p in pr:
            out.append({"cls": spec_name, "mode": mode, "op": edge["lab"]["op"], "lab": edge["lab"],
                        "pre": edge["pre"], "variant": variant, "aspect": p["aspect"], "detail": p["detail"],
                        "outs": edge["outs"][:2], "replay_fn": ["chk_values", "replay_alias"]})
    return out


def replay_alias(prop, case):
    spec = env.spec_by_name(case["cls"])
    edge = {"pre": case["pre"], "lab": case["lab"], "outs": case["outs"]}
    pr = alias_case(spec, edge, case["mode"], case.get("variant", 0))
    if pr:
        print(f"VIOLATION property={prop} replay={__import__('os').environ.get('VERIF_REPLAY_PATH', '-')} {pr[0]}")
        return 1
    print("not reproduced on this tree")
    return 0


def _has_container(v):
    return isinstance(v, dict) and v.get("t") in ("d", "l")


def root_results(run):
    """Results of ROOT-level (), values(), items() - unbuffered and inside both kinds of buffered context of
    both strategies: the user scribbles over the result; a second call, ==, another object of the same resource and
    the backend must not show it."""
    for spec in env.matrix():
        modes = [None] + (["backend", "object"] if spec.strategy else [])
        doc = {"a": {"x": [1, 2]}, "b": [3, {"y": 4}], "c": 5} if spec.kind == "d" else [{"x": [1, 2]}, [3, {"y": 4}], 5]
        for mode in modes:
            for what in ("call", "values", "items"):      # (iteration yields live children: writing through them is C01)
                if spec.kind == "l" and what in ("values", "items"):
                    continue
                env.reset_class_state()
                res = spec.new_resource()
                ctx = None
                try:
                    res.write_raw(copy.deepcopy(doc))
                    o, o2 = res.new_object(), res.new_object()
                    if mode == "backend":
                        ctx = spec.cls.buffer_backend()
                        ctx.__enter__()
                    elif mode == "object":
                        ctx = o.buffered
                        ctx.__enter__()
                    r = o() if what == "call" else (list(o.values()) if what == "values" else
                                                    (list(o.items()) if what == "items" else list(iter(o))))
                    probs = []
                    if what in ("call", "values", "items") and not realize.result_is_builtin(r):
                        probs.append(f"result of root {what} is not plain built-in data: {r!r}")
                    for c in containers_in(r):
                        scribble(c)
                    again = o()
                    if not val.same_typed(again, doc):
                        probs.append(f"after the user changed the result of root {what}, the collection reads {again!r}")
                    if not (o == doc):
                        probs.append(f"after the user changed the result of root {what}, collection == original content is False")
                    if mode != "object":
                        other = o2()
                        if not val.same_typed(other, doc):
                            probs.append(f"after the user changed the result of root {what}, another object of the resource reads {other!r}")
                    if ctx is not None:
                        ctx.__exit__(None, None, None)
                        ctx = None
                    raw = res.read_raw()
                    if not val.same_typed(raw, doc):
                        probs.append(f"after the user changed the result of root {what}, the backend holds {raw!r}")
                    for p_ in probs[:1]:
                        run.violation({"cls": spec.name, "mode": f"root-result[{mode}]", "op": what, "aspect": "alias", "detail": p_})
                    run.case(("root-result", spec.name, mode, what))
                finally:
                    if ctx is not None:
                        try:
                            ctx.__exit__(None, None, None)
                        except Exception:  # noqa: BLE001
                            pass
                    res.dispose()
    env.reset_class_state()


def check_C16(tier):
    run = common.Run("C16", tier)
    run.cov["rule"] = ("every edge of MC_PyOps whose operation takes a container argument or returns detached data, "
                       "executed on a collection nested in a dict root; afterwards every container reachable from "
                       "the user-held argument / result is mutated and collection() and the raw backend must be "
                       "unchanged; arguments are also passed as live synced children of the same tree and of "
                       "another collection, in which case source and stored copy must be independent both ways; root-level (), "
                       "values(), items() unbuffered and inside both kinds of buffered context")
    run.assumptions += ["bounded values as in spec/MC_PyOps.tla", "Redis/MongoDB/Zarr on fakes"]
    rnd = random.Random(common.seed())
    jobs_by_spec = {}
    n_edges = 0
    for kind in ("d", "l"):
        edges = chk_pyops.export_edges(run, kind, "json", "thorough" if tier == "thorough" else "quick",
                                       f"MC_PyOps kind={kind} (C16)")
        sel = []
        for e in edges:
            lab = e["lab"]
            ok_out = [o for o in e["outs"] if o["ret"]["t"] != "!"]
            if not ok_out:
                continue
            argname = "x" if "x" in lab else ("y" if "y" in lab else None)
            modes = []
            if lab["op"] in STORE_OPS and argname and _has_container(lab[argname]):
                modes += ["plain_arg", "synced_same", "synced_other"]
                # a list argument of extend/iadd/update/reset must be a container of the right kind to be synced
            if lab["op"] in RESULT_OPS:
                modes.append("result")
            for m in modes:
                if m.startswith("synced") and lab[argname]["t"] not in ("d", "l"):
                    continue
                sel.append((e, m))
        n_edges += len(sel)
        per = None if tier == "thorough" else 700
        for spec in env.specs(kind="d"):
            js = [(e, m, 0) for (e, m) in sel]
            if per and len(js) > per:
                js = rnd.sample(js, per)
            for (e, m, _v) in js:      # distinct = distinct executed (state, operation, mode) cases
                run._distinct.add((kind, val.canon(e["pre"]), val.canon(e["lab"]), m))
            jobs_by_spec.setdefault(spec.name, []).extend(js)
    jobs = []
    for name, js in jobs_by_spec.items():
        for ch in common.chunks(js, 3):
            jobs.append((name, ch))
    rnd.shuffle(jobs)
    total = 0
    for j in jobs[:3]:
        run.sample({"class": j[0], "pre": val.to_py(j[1][0][0]["pre"]), "operation": j[1][0][0]["lab"], "mode": j[1][0][1]})
    for out in common.pmap(_alias_job, jobs):
        for v in out:
            if v["aspect"] == "harness":
                run.machinery_error(v["detail"])
            elif v["aspect"] in ("alias", "builtin_types", "stored", "ret"):
                run.violation(v)
    total = sum(len(j[1]) for j in jobs)
    run.cov["evaluations"] += total
    run.cov["traces_validated_against_impl"] += total
    run.cov["classes"] = sorted(jobs_by_spec)
    root_results(run)
    run.sample({"mode": "synced_same", "root": {"p": {"a": 1}, "src": [1]}, "op": "root['p']['b'] = root['src']",
                "then": "root['src'].append(..) must not show under root['p']['b']"})
    return run.finish()


# ------------------------------------------------------------------ C12: round trip
POOLS = [
    None,
    {"i1": 2**70, "i0": -2**70, "f1": 1.7976931348623157e308, "sa": "\U0001F600é퟿", "s": ""},
    {"i1": 2**63, "i0": -1, "f1": 5e-324, "sa": "\"\\/\b\f\n\r\t\u0000", "s": "a.b"},
    {"i1": 2**31, "i0": 0, "f1": -0.0, "sa": "x" * 10000, "s": " "},
    {"i1": 10**40, "i0": -(2**63) - 1, "f1": 0.1, "sa": "  \x7f", "s": "0"},
    {"i1": 2**1024, "i0": -(10**400), "f1": 2.2250738585072014e-308, "sa": "\u2028\u2029", "s": "\ufeff"},   # beyond the double range
    {"i1": -1, "i0": 1, "f1": 1e-7, "sa": "\ud83d", "s": "\udfff x"},     # lone surrogates (JSON carries them as \\uXXXX escapes)
]


def _rt_job(args):
    spec_name, jobs = args
    env.install()
    spec = env.spec_by_name(spec_name)
    out = []
    for (position, edge, variant, pooli) in jobs:
        pool = POOLS[pooli]
        if pool and spec.fam == "attr":
            pool = {k: v for k, v in pool.items() if not (isinstance(v, str) and "." in v)}
        if pool and spec.backend == "mongo":
            pool = {k: v for k, v in pool.items() if not (isinstance(v, int) and not -2**63 <= v < 2**63)}
        try:
            pr = rt_edge(spec, position, edge, variant, pool)
        except Exception:  # noqa: BLE001
            import traceback
            pr = [{"aspect": "harness", "detail": traceback.format_exc(limit=6)}]
        for p in pr:
            out.append({"cls": spec_name, "position": position, "op": edge["lab"]["op"], "lab": edge["lab"],
                        "pre": edge["pre"], "variant": variant, "pool": pooli, "aspect": p["aspect"],
                        "detail": p["detail"], "outs": edge["outs"][:2], "replay_fn": ["chk_values", "replay_rt"]})
    return out


def rt_edge(spec, position, edge, variant, pool):
    """Store through the entry point, read back through a FRESH object: equal and same leaf types."""
    pre = val.to_py(edge["pre"], pool)
    res = spec.new_resource()
    problems = []
    try:
        res.write_raw(copy.deepcopy(seq.wrap(position, pre)))
        obj = res.new_object()
        try:
            target = seq.navigate(obj, position)
        except Exception as e:  # noqa: BLE001
            problems.append({"aspect": "roundtrip", "detail": f"a collection cannot read the JSON data {str(pre)[:120]} present in its "
                                                              f"resource: {type(e).__name__}: {str(e)[:160]}"})
            return problems
        obs = realize.perform(target, edge["lab"], variant, pool)
        ok = [o for o in edge["outs"] if o["ret"]["t"] != "!"]
        if obs[0] == "err":
            problems.append({"aspect": "accept", "detail": f"JSON value rejected: {type(obs[1]).__name__}: {str(obs[1])[:200]}"})
            return problems
        exp = seq.wrap(position, val.to_py(ok[0]["val"], pool))
        fresh = res.new_object()
        try:
            seen = fresh()
        except Exception as e:  # noqa: BLE001
            problems.append({"aspect": "roundtrip", "detail": f"fresh object cannot read the stored data: {type(e).__name__}: {e}"})
            return problems
        if not val.same_typed(seen, exp):
            problems.append({"aspect": "roundtrip", "detail": f"fresh object reads {str(seen)[:300]}, stored {str(exp)[:300]}"})
        return problems
    finally:
        res.dispose()


def replay_rt(prop, case):
    spec = env.spec_by_name(case["cls"])
    edge = {"pre": case["pre"], "lab": case["lab"], "outs": case["outs"]}
    pr = rt_edge(spec, case["position"], edge, case.get("variant", 0), POOLS[case.get("pool", 0)])
    if pr:
        print(f"VIOLATION property={prop} replay={__import__('os').environ.get('VERIF_REPLAY_PATH', '-')} {pr[0]}")
        return 1
    print("not reproduced on this tree")
    return 0


def constructor_cases(spec, values, fam):
    """Constructor data is an entry point too (C11 / C12)."""
    out = []
    for v in values:
        py = val.to_py(v)
        if (spec.kind == "d") != isinstance(py, dict) or not isinstance(py, (dict, list)):
            continue
        res = spec.new_resource()
        try:
            bad = has_forbidden(py, fam)
            try:
                o = res.new_object(data=copy.deepcopy(py))
                err = None
            except Exception as e:  # noqa: BLE001
                o, err = None, e
            if bad:
                if err is None:
                    out.append({"aspect": "forbidden", "detail": f"constructor accepted forbidden data {py!r}"})
                elif not isinstance(err, (TypeError, ValueError)):
                    out.append({"aspect": "forbidden", "detail": f"constructor raised {type(err).__name__} for {py!r}"})
            elif err is not None:
                out.append({"aspect": "accept", "detail": f"constructor rejected JSON data {py!r}: {err!r}"})
            elif not val.same_typed(o._to_base() if hasattr(o, "_to_base") else None, py):
                out.append({"aspect": "roundtrip", "detail": f"constructor data {py!r} held as {o._to_base()!r}"})
        finally:
            res.dispose()
    return out


def check_C12(tier):
    run = common.Run("C12", tier)
    run.cov["rule"] = ("every storing edge (setitem, slice assignment, setdefault, update, reset, append, extend, "
                       "insert, +=, constructor) of MC_PyOps with all bounded JSON values (atoms null/bool/int/float/"
                       "str, nested to depth 2) executed at root and nested positions; a FRESH object on the same "
                       "resource must read back an equal value with the same JSON type at every leaf; abstract atoms "
                       "are additionally concretised from pools of boundary scalars (2**70, 2**1024, -(10**400), 5e-324, astral/escape-heavy "
                       "strings, 10 kB strings, empty keys)")
    run.assumptions += ["structure and leaf types decided on the TLC-enumerated edges; the byte-level encoding of "
                        "scalars is exercised through the concretisation pools only (sampling, see DESIGN 9)",
                        "MongoDB fake rejects integers beyond 64 bits like the real BSON encoder; those pools are "
                        "skipped for MongoDB", "Redis/MongoDB/Zarr on fakes"]
    rnd = random.Random(common.seed())
    jobs = []
    for kind in ("d", "l"):
        edges = chk_pyops.export_edges(run, kind, "json", "thorough", f"MC_PyOps kind={kind} tier=thorough (C12)")
        edges = [e for e in edges if e["lab"]["op"] in STORE_OPS and any(o["ret"]["t"] != "!" for o in e["outs"])
                 and not any(o["ret"].get("e") == "Rejected" for o in e["outs"])]
        per = 400 if tier == "quick" else 4000
        for position in seq.POSITIONS:
            rk = seq.root_kind(position, kind)
            for spec in env.specs(kind=rk):
                js = [(position, e, rnd.randrange(realize.n_variants(kind, e["lab"])), rnd.randrange(len(POOLS)))
                      for e in (rnd.sample(edges, per) if len(edges) > per else edges)]
                for (_p, e, _v, _pl) in js:
                    run._distinct.add((kind, val.canon(e["pre"]), val.canon(e["lab"])))
                for ch in common.chunks(js, 2):
                    jobs.append((spec.name, ch))
    rnd.shuffle(jobs)
    for j in jobs[:3]:
        run.sample({"class": j[0], "position": j[1][0][0], "pre": val.to_py(j[1][0][1]["pre"]), "operation": j[1][0][1]["lab"],
                    "pool": j[1][0][3]})
    for out in common.pmap(_rt_job, jobs):
        for v in out:
            if v["aspect"] == "harness":
                run.machinery_error(v["detail"])
            else:
                run.violation(v)
    n = sum(len(j[1]) for j in jobs)
    run.cov["evaluations"] += n
    run.cov["traces_validated_against_impl"] += n
    # constructor entry point
    vals = [val.from_py(x) for x in ({}, [], {"a": True, "b": [1, 1.0, None, ""]}, [False, 0, 0.0, {"": {}}],
                                     {"k": 2**70, "u": "\U0001F600", "e": "\"\\\n"}, [[[[[[]]]]]], {"a": {"b": {"c": {"d": [1]}}}})]
    for spec in env.matrix():
        for p in constructor_cases(spec, vals, spec.fam):
            if p["aspect"] in ("accept", "roundtrip"):
                run.violation({"cls": spec.name, "op": "constructor", **p})
        run.cov["evaluations"] += len(vals)
    # random deep values beyond the bound (exploration supplement)
    n_rand = 150 if tier == "quick" else 3000
    bad = random_deep_values(run, rnd, n_rand)
    run.cov["random_deep_values"] = n_rand
    run.cov["classes"] = sorted({j[0] for j in jobs})
    run.sample({"store": "d['a'] = {'b': [True, 1, 1.0]}", "pool": "i1 -> 2**70", "check": "fresh object reads equal value, same leaf types"})
    return run.finish()


def _rand_value(rnd, depth):
    r = rnd.random()
    if depth <= 0 or r < 0.35:
        return rnd.choice([None, True, False, 0, 1, -1, 2**64 + 3, -2**80, 2**1030 + 1, -(10**330), 0.5, -0.0, 1e300, 5e-324, "", "a", "é",
                           "\U0001F600", "\x00", "\\u0041", '"', "a b", "0"])
    if r < 0.7:
        return {rnd.choice(["", "a", "b", "k k", "é", "0", "\n"]): _rand_value(rnd, depth - 1)
                for _ in range(rnd.randrange(0, 4))}
    return [_rand_value(rnd, depth - 1) for _ in range(rnd.randrange(0, 4))]


def random_deep_values(run, rnd, n):
    specs = [s for s in env.matrix() if s.backend != "mongo" and s.fam == "json"]
    for _ in range(n):
        v = _rand_value(rnd, 6)
        spec = rnd.choice(specs)
        res = spec.new_resource()
        try:
            o = res.new_object()
            try:
                if spec.kind == "d":
                    o["k"] = v
                    exp = {"k": v}
                else:
                    o.append(v)
                    exp = [v]
            except Exception as e:  # noqa: BLE001
                run.violation({"cls": spec.name, "op": "random_store", "aspect": "accept", "detail": f"{v!r} rejected: {e!r}"})
                continue
            seen = res.new_object()()
            if not val.same_typed(seen, exp):
                run.violation({"cls": spec.name, "op": "random_store", "aspect": "roundtrip",
                               "detail": f"stored {exp!r}, fresh object reads {seen!r}"})
        finally:
            res.dispose()
    run.cov["evaluations"] += n


# ------------------------------------------------------------------ C11: forbidden data
FORBIDDEN_FOR = {  # what each backend family forbids (documented validators)
    "json": ("nonstr", "bad"), "redis": ("nonstr", "bad"), "mongo": ("nonstr", "bad"), "zarr": ("nonstr",)}


def _c11_job(args):
    spec_name, fam, jobs = args
    env.install()
    spec = env.spec_by_name(spec_name)
    out = []
    for (position, edge, variant) in jobs:
        try:
            pr = c11_edge(spec, fam, position, edge, variant)
        except Exception:  # noqa: BLE001
            import traceback
            pr = [{"aspect": "harness", "detail": traceback.format_exc(limit=6)}]
        for p in pr:
            out.append({"cls": spec_name, "position": position, "op": edge["lab"]["op"], "lab": edge["lab"],
                        "pre": edge["pre"], "variant": variant, "aspect": p["aspect"], "detail": p["detail"],
                        "fam": fam, "argkind": p.get("argkind"), "outs": edge["outs"][:2],
                        "replay_fn": ["chk_values", "replay_c11"]})
    return out


def _arg_forbidden_kinds(x, fam):
    kinds = set()

    def walk(v):
        if isinstance(v, dict):
            for k, y in v.items():
                if not isinstance(k, str):
                    kinds.add("nonstr")
                elif fam == "attr" and "." in k:
                    kinds.add("dotted")
                walk(y)
        elif isinstance(v, (list, tuple)):
            for y in v:
                walk(y)
        elif not isinstance(v, (str, int, float, bool, type(None))):
            kinds.add("bad")
    walk(x)
    return kinds


def c11_edge(spec, fam, position, edge, variant):
    lab = edge["lab"]
    pre = val.to_py(edge["pre"])
    res = spec.new_resource()
    problems = []
    try:
        root0 = seq.wrap(position, pre)
        res.write_raw(copy.deepcopy(root0))
        obj = res.new_object()
        target = seq.navigate(obj, position)
        args = {}
        res2 = None
        if variant >= 100:
            # the argument is itself a synced collection of the laxer JSON family holding the dotted keys (root or nested)
            variant -= 100
            an = "x" if "x" in lab else "y"
            plain = val.to_py(lab[an])
            s2 = env.spec_by_name("JSONDict")
            res2 = s2.new_resource()
            res2.write_raw({"src": copy.deepcopy(plain), "z": 0})
            args[("given", an)] = res2.new_object()["src"]
            args[an] = plain
        try:
            obs = realize.perform(target, lab, variant, None, args=args)
        finally:
            if res2 is not None:
                res2.dispose()
        given = {}
        if "k" in lab:
            given[val.key_to_py(lab["k"])] = None
        argname = "x" if "x" in lab else ("y" if "y" in lab else None)
        kinds = _arg_forbidden_kinds(given, fam)
        if argname:
            kinds |= _arg_forbidden_kinds(args.get(argname), fam)
        allowed = set(FORBIDDEN_FOR[spec.backend]) | ({"dotted"} if fam == "attr" else set())
        kinds &= allowed
        expect_reject = any(o["ret"].get("e") == "Rejected" for o in edge["outs"]) and bool(kinds)
        raw = res.read_raw()
        mem = memory_image(obj)
        bulk = lab["op"] in ("update", "reset", "extend", "iadd", "setslice")
        if expect_reject:
            if obs[0] != "err":
                problems.append({"aspect": "forbidden", "argkind": sorted(kinds),
                                 "detail": f"forbidden data ({sorted(kinds)}) accepted; backend now {raw!r}"})
            elif not isinstance(obs[1], (TypeError, ValueError)):
                problems.append({"aspect": "forbidden", "argkind": sorted(kinds),
                                 "detail": f"rejected with {type(obs[1]).__name__}, not a TypeError/ValueError"})
            if raw is not env.MISSING and not isinstance(raw, env.Corrupt) and has_forbidden(raw, fam if "dotted" in allowed else "json"):
                problems.append({"aspect": "forbidden", "argkind": sorted(kinds), "detail": f"forbidden data reached the backend: {raw!r}"})
            if has_forbidden_mem(mem, kinds):
                problems.append({"aspect": "forbidden", "argkind": sorted(kinds), "detail": f"forbidden data reached memory: {mem!r}"})
            if not bulk and obs[0] == "err" and not isinstance(raw, env.Corrupt) and raw is not env.MISSING \
                    and not val.same_typed(raw, root0):
                problems.append({"aspect": "forbidden", "argkind": sorted(kinds),
                                 "detail": f"rejected single-element operation changed the backend: {raw!r}"})
        return problems
    finally:
        res.dispose()


def has_forbidden_mem(mem, kinds):
    if isinstance(mem, dict):
        for k, v in mem.items():
            if "nonstr" in kinds and not isinstance(k, str):
                return True
            if "dotted" in kinds and isinstance(k, str) and "." in k:
                return True
            if has_forbidden_mem(v, kinds):
                return True
        return False
    if isinstance(mem, (list, tuple)):
        return any(has_forbidden_mem(v, kinds) for v in mem)
    return "bad" in kinds and not isinstance(mem, (str, int, float, bool, type(None)))


def replay_c11(prop, case):
    spec = env.spec_by_name(case["cls"])
    edge = {"pre": case["pre"], "lab": case["lab"], "outs": case["outs"]}
    pr = c11_edge(spec, case["fam"], case["position"], edge, case.get("variant", 0))
    if pr:
        print(f"VIOLATION property={prop} replay={__import__('os').environ.get('VERIF_REPLAY_PATH', '-')} {pr[0]}")
        return 1
    print("not reproduced on this tree")
    return 0


KNOWN_PUBLIC = {
    # read / non-mutating API
    "keys", "values", "items", "get", "index", "count", "is_base_type", "copy",
    # mutating entry points covered by PyOps
    "pop", "popitem", "clear", "update", "setdefault", "reset", "append", "extend", "insert", "remove", "reverse",
    # configuration / infrastructure (take no collection data)
    "enable_multithreading", "disable_multithreading", "buffer_backend", "backend_is_buffered",
    "get_buffer_capacity", "set_buffer_capacity", "get_current_buffer_size", "registry", "filename", "buffered",
    "client", "key", "collection", "uid", "codec", "group", "name",
}


def api_surface_check(run):
    """Entry points are enumerated from the classes' public API: a name the spec does not know fails the run."""
    for spec in env.matrix():
        for n in dir(spec.cls):
            if n.startswith("_"):
                continue
            if n not in KNOWN_PUBLIC:
                run.machinery_error(f"public name {spec.name}.{n} is not covered by spec/PyOps.tla (new entry point?)")


def check_C11(tier):
    run = common.Run("C11", tier)
    run.cov["rule"] = ("MC_PyOps tier=forbid: every mutating entry point x target (root / nested dict / nested list / "
                       "depth 3) x forbidden item kind (non-str key, non-JSON leaf, dotted key for attr families) x "
                       "position of the forbidden item inside the argument (dotted keys also inside a synced collection of the plain JSON "
                       "family passed as the argument); the operation must raise a TypeError/"
                       "ValueError subclass, memory (no-load walk) and raw backend must stay free of forbidden items, "
                       "a rejected single-element operation must change nothing; plus constructor data; public API "
                       "names enumerated by reflection must all be known to the spec")
    run.assumptions += ["NaN/Infinity are not treated as forbidden", "Zarr classes only forbid non-string keys "
                        "(no JSON validator by design: codec is pluggable)", "Redis/MongoDB/Zarr on fakes"]
    api_surface_check(run)
    rnd = random.Random(common.seed())
    jobs = []
    for fam in ("json", "attr"):
        for kind in ("d", "l"):
            edges = chk_pyops.export_edges(run, kind, fam, "forbid", f"MC_PyOps kind={kind} fam={fam} tier=forbid")
            edges = [e for e in edges if any(o["ret"].get("e") == "Rejected" for o in e["outs"])]
            per = 500 if tier == "quick" else None
            for position in seq.POSITIONS:
                rk = seq.root_kind(position, kind)
                for spec in env.specs(kind=rk):
                    if spec.fam != fam:
                        continue
                    es = rnd.sample(edges, per) if per and len(edges) > per else edges
                    js = [(position, e, rnd.randrange(realize.n_variants(kind, e["lab"]))) for e in es]
                    if fam == "attr":
                        for e in es:
                            an = "x" if "x" in e["lab"] else ("y" if "y" in e["lab"] else None)
                            if an and e["lab"][an]["t"] in ("d", "l") and rnd.random() < 0.5 and \
                                    _arg_forbidden_kinds(val.to_py(e["lab"][an]), "attr") == {"dotted"}:
                                js.append((position, e, 100 + rnd.randrange(realize.n_variants(kind, e["lab"]))))
                    for (_p, e, _v) in js:
                        run._distinct.add((fam, kind, val.canon(e["pre"]), val.canon(e["lab"])))
                    for ch in common.chunks(js, 2):
                        jobs.append((spec.name, fam, ch))
    rnd.shuffle(jobs)
    for j in jobs[:3]:
        run.sample({"class": j[0], "family": j[1], "position": j[2][0][0], "pre": val.to_py(j[2][0][1]["pre"]),
                    "operation": j[2][0][1]["lab"], "spec_outcomes": j[2][0][1]["outs"][:2]})
    for out in common.pmap(_c11_job, jobs):
        for v in out:
            if v["aspect"] == "harness":
                run.machinery_error(v["detail"])
            else:
                run.violation(v)
    n = sum(len(j[2]) for j in jobs)
    run.cov["evaluations"] += n
    run.cov["traces_validated_against_impl"] += n
    bad_vals = [val.from_py(x) for x in ({1: "v"}, {"a": {1: 3}}, [{1: 2}], {"a": [{"b": {None: 4}}]}, [[{None: 1}]])]
    bad_vals += [{"t": "d", "m": {"a": {"t": "x"}}}, {"t": "l", "s": [{"t": "i1"}, {"t": "x"}]},
                 {"t": "d", "m": {"a": {"t": "l", "s": [{"t": "d", "m": {"b": {"t": "x"}}}]}}}]
    dotted = [val.from_py(x) for x in ({"a.b": 1}, {"a": {"c.d": 1}}, {"a": [{"x.y": 1}]}, [{"a.b": 1}], [[{"p.q": 1}]])]
    for spec in env.matrix():
        vals = list(bad_vals) + (dotted if spec.fam == "attr" else [])
        for p in constructor_cases(spec, vals, spec.fam):
            if p["aspect"] == "forbidden":
                kinds = "bad" if "BadLeaf" in p["detail"] else ("dotted" if "." in p["detail"] and "1" not in p["detail"][:40] else "nonstr")
                if spec.backend == "zarr" and "BadLeaf" in p["detail"]:
                    continue
                run.violation({"cls": spec.name, "op": "constructor", "position": "root", "fam": spec.fam, **p})
        run.cov["evaluations"] += len(vals)
    run.cov["classes"] = sorted({j[0] for j in jobs})
    run.sample({"entry": "root['l'].append({'a.b': 1})", "class": "JSONAttrDict root", "expect": "InvalidKeyError, nothing stored"})
    return run.finish()


# ------------------------------------------------------------------ C17
def check_C17(tier):
    run = common.Run("C17", tier)
    run.cov["rule"] = ("every read edge of MC_PyOps (item access, get, len, iteration, membership, ==, ordering, (), "
                       "keys/values/items, slices, index/count) on existing and on missing resources for all 18 classes, "
                       "with an audit hook on open()/os.replace and inode/size/mtime (or the fakes' write counters) "
                       "compared; reads of a populated object whose resource another program deleted; multi-handle histories of Contract.tla (reads and navigation); read-only input "
                       "sequences of BufContract.tla inside nested buffered contexts of both strategies validated by "
                       "TLC (no file written, none created, nothing raised)")
    run.assumptions += ["bounded as spec/MC_PyOps.tla, MC_Contract.tla, MC_BufContract.tla", "Redis/MongoDB/Zarr on fakes"]
    chk_pyops.check_C17_unbuffered(run, tier)
    # repr / str
    for spec in env.matrix():
        for missing in (False, True):
            res = spec.new_resource()
            try:
                doc = {"a": [1, {"b": None}]} if spec.kind == "d" else [1, {"b": None}]
                if not missing:
                    res.write_raw(copy.deepcopy(doc))
                o = res.new_object()
                st0, wc0 = (res.stat() if hasattr(res, "stat") else None), res.write_count()
                seq.audit_start()
                r1, r2 = repr(o), str(o)
                ev = seq.audit_stop()
                pr = []
                hist_check_nowrite(res, st0, wc0, ev, pr)
                if missing and res.exists():
                    pr.append("repr/str created the missing resource")
                if not missing and eval(r1) != doc:  # noqa: S307 - repr of plain data
                    pr.append(f"repr does not evaluate to the content: {r1}")
                for p in pr:
                    run.violation({"cls": spec.name, "op": "repr", "aspect": "nowrite", "detail": p})
                run.case(("repr", spec.name, missing))
            finally:
                res.dispose()
    # a populated collection whose resource disappears behind its back (another program deletes it): whatever the
    # reads return, they must not bring the resource back
    for spec in env.matrix():
        res = spec.new_resource()
        try:
            doc = {"a": [1, {"b": None}], "c": 2} if spec.kind == "d" else [1, {"b": None}, 2]
            res.write_raw(copy.deepcopy(doc))
            o = res.new_object()
            o()                                     # the object now holds the content in memory
            child = o["a"] if spec.kind == "d" else o[1]
            res.write_raw(env.MISSING)
            wc0 = res.write_count()
            seq.audit_start()
            outcomes = []
            for name, fn in (("len", lambda: len(o)), ("iter", lambda: list(iter(o))), ("call", lambda: o()),
                             ("eq", lambda: o == doc), ("repr", lambda: repr(o)), ("contains", lambda: "a" in o),
                             ("child-len", lambda: len(child)), ("child-call", lambda: child())):
                try:
                    fn()
                    outcomes.append(name)
                except Exception as e:  # noqa: BLE001 - what a read of a vanished resource returns is not C17's subject
                    outcomes.append(f"{name}:{type(e).__name__}")
                if res.exists():
                    run.violation({"cls": spec.name, "op": "read-after-delete:" + name, "aspect": "nowrite",
                                   "detail": f"the read {name} re-created the resource that another program had deleted "
                                             f"(content now {res.read_raw()!r})"})
                    break
            ev = seq.audit_stop()
            if not res.exists() and (seq.writes_to(res, ev) or (wc0 is not None and res.write_count() != wc0)):
                run.violation({"cls": spec.name, "op": "read-after-delete", "aspect": "nowrite",
                               "detail": f"reads of a deleted resource wrote to the backend: {ev}"})
            run.case(("read-after-delete", spec.name))
        finally:
            res.dispose()
    # histories (reads + navigation through several handles)
    from . import chk_contract
    rnd = random.Random(common.seed())
    for rk in ("d", "l"):
        hs = chk_contract.bfs_histories(run, rk, 2, 3, rnd, 400 if tier == "quick" else 40)
        chk_contract.run_histories(run, "C17", hs, rk, 2, ("nowrite",), ("nowrite",))
    # buffered read-only sequences
    from . import chk_buf
    quick = tier == "quick"
    for strategy in ("serialized", "memory"):
        for kind in ("d", "l"):
            hs = chk_buf.gen_sim(run, strategy, kind, "shared", n=(40 if quick else 400), length=10)
            ro = []
            for h in hs:
                keep = [h[0]] + [i for i in h[1:] if i["a"] not in ("op", "ext") or (i["a"] == "op" and i["op"]["op"] in chk_buf.READS)]
                ro.append(chk_buf.close_contexts(_equal_rewrites(keep, rnd)))
            ro = _stale_image_histories(kind) + ro      # systematic ones first: the cap below must not cut them
            uniq = {val.canon(h): h for h in ro}
            ro = list(uniq.values())[: (500 if quick else 6000)]
            for h in ro:
                run._distinct.add(("ro", strategy, kind, val.canon(h)))
            traces = chk_buf.execute(run, strategy, kind, "shared", ro, attr_too=not quick)
            chk_buf.judge(run, "C17", strategy, kind, "shared", traces, ("w", "files", "err", "ret"))
    run.sample({"read": "len(obj) on a missing file", "expect": "file still missing, no open(...,'w'), same inode/mtime"})
    return run.finish()


def _stale_image_histories(kind):
    """Systematic read-only inputs: an object caches the file, another program rewrites the file with the same value
    in another serialisation, then the same or the other object only READS inside a buffered context."""
    S = lambda a: {"t": a}  # noqa: E731
    if kind == "d":
        docs = [{"t": "d", "m": {"a": S("i2"), "b": {"t": "l", "s": [S("n")]}}},
                {"t": "d", "m": {"a": {"t": "d", "m": {"a": S("i1"), "b": S("n")}}, "b": S("i1")}}]
        reads = [{"op": "len"}, {"op": "call"}, {"op": "getitem", "k": "a"}]
    else:
        docs = [{"t": "l", "s": [S("i2"), {"t": "d", "m": {"a": S("n"), "b": S("i1")}}]}]
        reads = [{"op": "len"}, {"op": "call"}, {"op": "getitem", "i": 1}]
    out = []
    for d in docs:
        for x in ("A", "B"):
            for y in ("A", "B"):
                # (per-object contexts would put A and B into different buffering states: outside the model's domain)
                for enter in ({"a": "enterB", "c": val.NONE}, {"a": "enterB", "c": 1000}):
                    for r1 in reads[:2]:
                        for r2 in reads:
                            out.append([{"a": "init", "docs": {"f1": d}, "ex": {"f1": True}},
                                        {"a": "op", "o": x, "op": r1},
                                        {"a": "ext", "r": "f1", "v": d, "style": 1},
                                        dict(enter), {"a": "op", "o": y, "op": r2}, {"a": "exit"}])
    return out


def _equal_rewrites(h, rnd):
    """Between contexts another program rewrites a file with the SAME value in another serialisation (key order,
    whitespace): BufContract!External with v = the current document.  Nothing a reader does afterwards may write."""
    docs, ex = h[0]["docs"], h[0]["ex"]
    out, depth, touched = [h[0]], 0, False
    for i in h[1:]:
        if depth == 0 and touched and rnd.random() < 0.35:
            r = rnd.choice(sorted(docs))
            if ex[r]:
                out.append({"a": "ext", "r": r, "v": docs[r], "style": 1})
        out.append(i)
        if i["a"] in ("enterO", "enterB"):
            depth += 1
        elif i["a"] == "exit":
            depth -= 1
        elif i["a"] == "op":
            touched = True
    return out


def hist_check_nowrite(res, stat0, wc0, events, problems):
    if stat0 is not None and res.stat() != stat0:
        problems.append(f"file changed by a read: {stat0} -> {res.stat()}")
    elif wc0 is not None and res.write_count() != wc0:
        problems.append("backend write during a read")
    elif seq.writes_to(res, events):
        problems.append(f"file opened for writing during a read: {events}")
