"""C19: classification never depends on history (Resolver.tla + replay on the real resolvers)."""
import json
import os
import subprocess
import sys

from . import common, tlc, val


def check_C19(tier):
    run = common.Run("C19", tier)
    n = 3 if tier == "quick" else 4
    run.cov["rule"] = (f"histories = all sequences of {n} get_type calls over a pool of 12 abstract values (types with a "
                       "fixed category, a type matching two categories, a type matching none, an instance-dependent type "
                       "in both instance states) enumerated by TLC from Resolver.tla; each is replayed on the 7 "
                       "module-level resolvers (memo emptied first) with concrete values (built-ins, OrderedDict, "
                       "defaultdict, UserList, deque, range, user Mapping/Sequence, a dict+Sequence class, sets, objects, "
                       "0-d / 1-d arrays of a fake numpy) and every answer must equal the history-free answer; validation "
                       "/ conversion / merging outcomes after warm-up histories are compared with a fresh interpreter")
    run.assumptions += ["numpy is not installed: a minimal fake numpy (ndarray with ndim/tolist/item) is injected so that "
                        "instance-dependent classification and the blocklist are exercised",
                        "late ABC registration is not in the pool (it changes the type, not the history)",
                        "spec/ResolverProof.tla: TLAPS proof of C19_HistoryIndependent for histories of any length (TLC: length 3/4)"]
    cfg = tlc.cfg_text(constants={"Blocklisted": "TRUE", "MaxCalls": str(n), "Dev_KeyByAddress": "FALSE"},
                       invariants=["C19_HistoryIndependent", "MemoSound", "ExportHist"])
    res = tlc.run("MC_Resolver", cfg, name="resolver", timeout=600, coverage=True)
    if not res.ok:
        run.machinery_error(f"TLC Resolver: {res.violated} {res.errors[:2]} {res.tail(10)}")
        return run.finish()
    run.add_tlc(res, f"Resolver.tla Blocklisted=TRUE MaxCalls={n}")
    uniq = {}
    for h in res.records("HIST"):          # (Birth / Death steps repeat the same call history)
        uniq.setdefault(json.dumps(h, sort_keys=True), h)
    hists = [val.norm(uniq[k]) for k in sorted(uniq)]
    run.cov["distinct_call_histories"] = len(hists)
    if tier == "quick" and len(hists) > 3500:
        import random
        hists = random.Random(common.seed()).sample(hists, 3500)
    # vacuity: without the blocklist the model must expose history dependence
    cfg2 = tlc.cfg_text(constants={"Blocklisted": "FALSE", "MaxCalls": "3", "Dev_KeyByAddress": "FALSE"},
                        invariants=["C19_HistoryIndependent"])
    r2 = tlc.run("MC_Resolver", cfg2, name="resolver-selftest", timeout=300)
    if r2.violated != "C19_HistoryIndependent":
        run.machinery_error("self-test: Resolver.tla without the blocklist does not violate C19_HistoryIndependent")
    run.add_tlc(r2, "Resolver.tla Blocklisted=FALSE (must violate: witness of history dependence)")
    # second deviation: a memo keyed by the address of the type object lets a garbage-collected class bequeath its
    # category to a later class at the same address
    cfg3 = tlc.cfg_text(constants={"Blocklisted": "TRUE", "MaxCalls": "3", "Dev_KeyByAddress": "TRUE"},
                        invariants=["C19_HistoryIndependent"])
    r3 = tlc.run("MC_Resolver", cfg3, name="resolver-addr", timeout=300)
    if r3.violated != "C19_HistoryIndependent":
        run.machinery_error("self-test: Resolver.tla keyed by address does not violate C19_HistoryIndependent")
    run.cov.setdefault("deviation_witnesses", {})["Dev_KeyByAddress"] = str(r3.violated)
    # histories of UNBOUNDED length: the proof system checks that MemoSound + C19 are inductive
    ok, nobl, tail = tlc.prove("ResolverProof", ["Resolver"])
    if not ok:
        run.machinery_error("TLAPS: ResolverProof.tla is not proved: " + tail)
    else:
        run.cov["tlaps"] = {"module": "ResolverProof", "obligations_proved": nobl,
                            "theorem": "Init /\\ [][Next]_rvars => []C19_HistoryIndependent with the blocklist, any number of calls"}
    path = os.path.join(tlc.scratch(), "c19-hists.json")
    with open(path, "w") as f:
        json.dump(hists, f)
    env = dict(os.environ, VERIF_FAKE_NUMPY="1")
    p = subprocess.run([sys.executable, "-m", "harness.c19_worker", "run", path], capture_output=True, text=True,
                       cwd=common.VERIF, env=env, timeout=3000)
    rep = None
    for line in p.stdout.splitlines():
        if line.startswith("REPORT "):
            rep = json.loads(line[7:])
    if rep is None:
        run.machinery_error(f"C19 worker failed: rc={p.returncode} {p.stderr[-600:]}")
        return run.finish()
    run.cov["evaluations"] += rep["resolver_calls"] + rep["probes"]
    run.cov["traces_validated_against_impl"] += rep["histories"] * 7 + rep["probes"]
    for h in hists:
        run._distinct.add(val.canon(h))
    run.cov["end_to_end_probes"] = rep["probes"]
    for m in rep["mismatches"]:
        run.violation({"op": m["resolver"], "aspect": "resolver", "detail": f"{m['resolver']}.get_type({m['value']}) "
                       f"[{m['type']}] = {m['got']} after history {m['history']}, fresh answer {m['fresh']}", **m})
    for m in rep["probe_mismatches"]:
        run.violation({"op": "probe", "aspect": "end_to_end", "detail": f"after warm-up {m['after_history']} probing "
                       f"{m['probe']} differs from a fresh interpreter: {json.dumps(m['differs'])[:600]}", **m})
    for m in rep.get("lifetime_mismatches", []):
        run.violation({"op": m["resolver"], "aspect": "lifetime", "detail": f"{m['resolver']}.get_type(<{m['value']}>) = {m['got']}, "
                       f"fresh answer {m['fresh']}, after: {m['history']}", **m})
    run.cov["evaluations"] += rep.get("lifetime_calls", 0)
    run.cov["class_lifetime_probe_calls"] = rep.get("lifetime_calls", 0)
    run.sample({"history": hists[len(hists) // 2] if hists else None})
    return run.finish()
