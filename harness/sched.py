"""Deterministic scheduler for the real library code.

Real threads run the unmodified library, but exactly one runs at a time: every thread parks at
*yield points* (lock acquire / release, suspend-counter enter / exit, load from and save to the
resource, buffer load / save / flush, optionally every executed line of library code) and the
controller decides who continues.  Locks are replaced by SchedRLock, which never blocks the OS
thread: a thread that cannot take a lock is simply not runnable.  "No runnable thread while some
are unfinished" is a deadlock.

install() must run before synced_collections is imported (the modules bind `RLock` at import).
"""
import os
import sys
import threading

_real_RLock = threading.RLock
CUR = None          # the active Scheduler, if any


class SchedRLock:
    """Re-entrant lock controlled by the scheduler (falls back to plain behaviour when none is active)."""

    _n = 0

    def __init__(self):
        SchedRLock._n += 1
        self.id = SchedRLock._n
        self.owner = None
        self.count = 0
        self.label = None

    def _me(self):
        s = CUR
        if s is not None:
            t = s.by_ident.get(threading.get_ident())
            if t is not None:
                return t
        return ("os", threading.get_ident())

    def acquire(self, blocking=True, timeout=-1):
        me = self._me()
        s = CUR
        managed = s is not None and not isinstance(me, tuple)
        if managed:
            # coarse mode: a re-entrant acquisition is invisible to the other threads - no scheduling point
            if not (s.coarse and self.owner is me):
                s.yield_point(me, "acquire", self)
            while self.owner is not None and self.owner is not me:
                s.block_on(me, self)
        else:
            if self.owner is not None and self.owner != me:
                raise RuntimeError(f"unmanaged thread would block on lock {self.id} held by {self.owner}")
        self.owner = me
        self.count += 1
        return True

    def release(self):
        me = self._me()
        if self.owner != me and self.owner is not me:
            raise RuntimeError("cannot release un-acquired lock")
        self.count -= 1
        if self.count == 0:
            self.owner = None
        s = CUR
        if s is not None and not isinstance(me, tuple) and not (s.coarse and self.count > 0):
            s.yield_point(me, "release", self)

    __enter__ = acquire

    def __exit__(self, *a):
        self.release()

    def free(self):
        return self.owner is None

    def __repr__(self):
        return f"<SchedRLock {self.id} {self.label or ''} owner={getattr(self.owner, 'name', self.owner)} n={self.count}>"


class Deadlock(Exception):
    pass


class ScheduleExhausted(Exception):
    pass


class _T:
    def __init__(self, name, fn):
        self.name = name
        self.fn = fn
        self.state = "new"      # new / parked / running / blocked / done
        self.blocked_on = None
        self.point = ("start", None)
        self.go = threading.Event()
        self.result = None
        self.thread = None
        self.steps = 0

    def __repr__(self):
        return f"T({self.name},{self.state},{self.point[0]})"


class Scheduler:
    def __init__(self, choose, line_level=False, max_steps=4000, coarse=False):
        self.coarse = coarse          # True: only lock operations that change ownership are scheduling points
        self.choose = choose          # choose(runnable: list[_T], current: _T|None, trace) -> _T
        self.threads = []
        self.by_ident = {}
        self.ctl = threading.Event()
        self.trace = []               # (thread name, point kind, detail)
        self.line_level = line_level
        self.max_steps = max_steps
        self.deadlock = None
        self.aborted = None
        self.last = None

    def spawn(self, name, fn):
        t = _T(name, fn)
        self.threads.append(t)
        return t

    # ---- called from managed threads
    def yield_point(self, t, kind, detail=None):
        if self.aborted:
            raise SystemExit
        t.point = (kind, detail)
        t.state = "parked"
        self._handoff(t)

    def block_on(self, t, lock):
        if self.aborted:
            raise SystemExit
        t.blocked_on = lock
        t.state = "blocked"
        self._handoff(t)
        t.blocked_on = None

    def _handoff(self, t):
        t.go.clear()
        self.ctl.set()
        t.go.wait()
        if self.aborted:
            raise SystemExit
        t.state = "running"

    def _body(self, t):
        self.by_ident[threading.get_ident()] = t
        t.go.wait()
        if self.aborted:
            t.state = "done"
            self.ctl.set()
            return
        t.state = "running"
        if self.line_level:
            sys.settrace(self._tracer(t))
        try:
            t.result = t.fn()
        except SystemExit:
            pass
        except BaseException as e:  # noqa: BLE001
            t.result = ("thread-error", e)
        finally:
            sys.settrace(None)
            t.state = "done"
            self.ctl.set()

    def _tracer(self, t):
        prefix = os.path.join(os.environ.get("VERIF_REPO", "/repo"), "synced_collections") + os.sep
        sched = self

        def tr(frame, ev, arg):
            if not frame.f_code.co_filename.startswith(prefix):
                return None
            if ev == "line" and not sched.aborted:
                sched.yield_point(t, "line", f"{os.path.basename(frame.f_code.co_filename)}:{frame.f_lineno}")
            return tr
        return tr

    # ---- controller
    def run(self):
        global CUR
        CUR = self
        try:
            for t in self.threads:
                t.thread = threading.Thread(target=self._body, args=(t,), daemon=True)
                t.state = "parked"
                t.thread.start()
            current = None
            steps = 0
            while True:
                live = [t for t in self.threads if t.state != "done"]
                if not live:
                    break
                runnable = [t for t in live if t.state == "parked"
                            or (t.state == "blocked" and (t.blocked_on.owner is None or t.blocked_on.owner is t))]
                if not runnable:
                    self.deadlock = {t.name: repr(t.blocked_on) for t in live}
                    self._abort()
                    break
                steps += 1
                if steps > self.max_steps:
                    self.aborted = "step limit"
                    self._abort()
                    break
                try:
                    nxt = self.choose(runnable, current if current in runnable else None, self.trace)
                except ScheduleExhausted:
                    nxt = runnable[0]
                self.trace.append((nxt.name, nxt.point[0], _short(nxt.point[1]), [r.name for r in runnable]))
                current = nxt
                self.ctl.clear()
                nxt.go.set()
                self.ctl.wait()
            return self
        finally:
            CUR = None

    def _abort(self):
        self.aborted = self.aborted or "deadlock"
        for t in self.threads:
            t.go.set()
        for t in self.threads:
            if t.thread is not None:
                t.thread.join(timeout=2)


def _short(d):
    if isinstance(d, SchedRLock):
        return f"lock{d.id}:{d.label or ''}"
    return d


# ------------------------------------------------------------------ installation
_installed = False
_L = None
POINTS = {}


def install():
    """Patch threading.RLock while synced_collections is imported, then add the yield points."""
    global _installed, _L
    if _installed:
        return _L
    _installed = True
    from . import env
    env.install()
    threading.RLock = SchedRLock
    try:
        L = env.lib()
    finally:
        threading.RLock = _real_RLock
    import importlib
    sc_mod = importlib.import_module("synced_collections.data_types.synced_collection")
    fb_mod = importlib.import_module("synced_collections.buffers.file_buffered_collection")
    for m in (sc_mod, fb_mod):
        if getattr(m, "RLock", None) is not SchedRLock:
            raise RuntimeError(f"RLock of {m.__name__} could not be substituted")

    def wrap(cls, name, kind):
        orig = cls.__dict__.get(name)
        if orig is None:
            POINTS[f"{cls.__name__}.{name}"] = "missing"
            return

        def w(self, *a, **kw):
            s = CUR
            if s is not None:
                t = s.by_ident.get(threading.get_ident())
                if t is not None:
                    s.yield_point(t, kind, getattr(self, "_filename", None) and os.path.basename(str(self._filename)))
            return orig(self, *a, **kw)
        w.__name__ = name
        setattr(cls, name, w)
        POINTS[f"{cls.__name__}.{name}"] = "ok"

    wrap(L.json.JSONCollection, "_load_from_resource", "load")
    wrap(L.json.JSONCollection, "_save_to_resource", "save")
    ser = importlib.import_module("synced_collections.buffers.serialized_file_buffered_collection").SerializedFileBufferedCollection
    mem = importlib.import_module("synced_collections.buffers.memory_buffered_collection").SharedMemoryFileBufferedCollection
    for c in (ser, mem):
        wrap(c, "_load_from_buffer", "bufload")
        wrap(c, "_save_to_buffer", "bufsave")
        wrap(c, "_flush", "flush")
    # the file-system primitives as seen by the JSON backend: open (file created / truncated, nothing
    # written yet) and os.replace are yield points too
    import builtins

    def open_(path, mode="r", *a, **kw):
        f = builtins.open(path, mode, *a, **kw)
        s_ = CUR
        if s_ is not None and any(c in str(mode) for c in "wax+"):
            t = s_.by_ident.get(threading.get_ident())
            if t is not None:
                s_.yield_point(t, "opened", os.path.basename(str(path)))
        return f
    L.json.open = open_
    POINTS["collection_json.open"] = "ok"

    class _OS:
        def __getattr__(self, k):
            return getattr(os, k)

        def replace(self, src, dst, *a, **kw):
            s_ = CUR
            if s_ is not None:
                t = s_.by_ident.get(threading.get_ident())
                if t is not None:
                    s_.yield_point(t, "replace", os.path.basename(str(dst)))
            return os.replace(src, dst, *a, **kw)
    L.json.os = _OS()
    POINTS["collection_json.os.replace"] = "ok"
    cc = L.utils._CounterContext
    for name, kind in (("__enter__", "susp+"), ("__exit__", "susp-")):
        orig = cc.__dict__[name]

        def mk(orig, kind):
            def w(self, *a, **kw):
                s = CUR
                if s is not None:
                    t = s.by_ident.get(threading.get_ident())
                    if t is not None and not s.coarse:
                        s.yield_point(t, kind, None)
                return orig(self, *a, **kw)
            return w
        setattr(cc, name, mk(orig, kind))
        POINTS[f"_CounterContext.{name}"] = "ok"
    _L = L
    return L


def all_locks(L):
    out = []
    for mod in (L.json,):
        for n in dir(mod):
            c = getattr(mod, n)
            if isinstance(c, type) and hasattr(c, "_locks"):
                for k, lk in c._locks.items():
                    if isinstance(lk, SchedRLock):
                        lk.label = f"{c.__name__}:{os.path.basename(str(k))}"
                        out.append(lk)
                if isinstance(getattr(c, "_cls_lock", None), SchedRLock):
                    c._cls_lock.label = f"{c.__name__}:cls"
                    out.append(c._cls_lock)
                if isinstance(c.__dict__.get("_BUFFER_LOCK"), SchedRLock):
                    c._BUFFER_LOCK.label = f"{c.__name__}:buffer"
                    out.append(c._BUFFER_LOCK)
    return out


# ------------------------------------------------------------------ systematic exploration
class Explorer:
    """Stateless DFS over schedules with a preemption bound (CHESS style)."""

    def __init__(self, run_once, bound=2, max_runs=400, by_preemptions=False, seed=0, extra_random=0):
        self.run_once = run_once      # run_once(choose) -> result (uses a fresh Scheduler)
        self.bound = bound
        self.max_runs = max_runs
        # by_preemptions: schedules with fewer preemptions first, random order among equals (a budget then covers
        # ALL non-preemptive thread orders and 1-preemption schedules before sampling the 2-preemption ones)
        self.by_preemptions = by_preemptions
        self.rnd = __import__("random").Random(seed)
        # after the depth-first budget (which favours late preemptions): this many more schedules, drawn uniformly
        # from ALL pending branches (early preemptions included)
        self.extra_random = extra_random

    def explore(self):
        results = []
        stack = [[]]
        pre = {(): 0}
        seen = set()
        while stack and len(results) < self.max_runs + self.extra_random:
            if len(results) >= self.max_runs:
                prefix = stack.pop(self.rnd.randrange(len(stack)))
            elif self.by_preemptions:
                lo = min(pre.get(tuple(p), 0) for p in stack)
                cands = [i for i, p in enumerate(stack) if pre.get(tuple(p), 0) == lo]
                prefix = stack.pop(self.rnd.choice(cands))
            else:
                prefix = stack.pop()
            key = tuple(prefix)
            if key in seen:
                continue
            seen.add(key)
            choices = []     # (index in runnable, n runnable, was current runnable, current index)

            def choose(runnable, current, trace, prefix=prefix, choices=choices):
                i = len(choices)
                names = [t.name for t in runnable]
                cur_i = runnable.index(current) if current is not None else None
                if i < len(prefix):
                    want = prefix[i]
                    pick = names.index(want) if want in names else (cur_i if cur_i is not None else 0)
                else:
                    pick = cur_i if cur_i is not None else 0
                choices.append((names[pick], names, current.name if current is not None else None))
                return runnable[pick]

            res = self.run_once(choose)
            results.append((res, [c[0] for c in choices]))
            # branch: at every choice point at or after the prefix, try the other runnable threads
            taken = [c[0] for c in choices]
            for i in range(len(prefix), len(choices)):
                pick, names, cur = choices[i]
                for alt in names:
                    if alt == pick:
                        continue
                    newp = taken[:i] + [alt]
                    np_ = self._preemptions(choices, newp)
                    if np_ <= self.bound:
                        stack.append(newp)
                        pre[tuple(newp)] = np_
        return results

    @staticmethod
    def _preemptions(choices, sched):
        n = 0
        for i, name in enumerate(sched):
            pick, names, cur = choices[i]
            if cur is not None and cur in names and name != cur:
                n += 1
        return n
