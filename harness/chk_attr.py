"""C18: nested containers keep the root's family; attribute access equals item access (Attr.tla)."""
import copy
import random

from . import common, env, tlc, val

CONCRETE = {
    "ord": ["foo", "_id", "a b", "data", "x1"],
    "dun": ["__custom__", "__x"],
    "cls": ["keys", "update", "values", "get", "pop", "reset"],
}
UNASSIGNED_OK = ()   # protected names that no constructor assigns are still "the object itself"


def prot_names(obj):
    cls = type(obj)
    assigned = [n for n in cls._PROTECTED_KEYS if n in vars(obj)]
    unassigned = [n for n in cls._PROTECTED_KEYS if n not in vars(obj) and not hasattr(cls, n)]
    return assigned, unassigned


def build(spec, position, data, objattr, names, stale=None):
    """A fresh attr-dict (root / nested in dict / nested in a list) holding `data`; returns (resource, root, target).
    stale: the object first loads this other content, then an outside writer stores `data` (Attr!Ext)."""
    res = spec.new_resource()
    content = {names[k]: v for k, v in data.items()}
    if stale is not None:
        res.write_raw(copy.deepcopy(wrap(position, {names[k]: v for k, v in stale.items()})))
        root = res.new_object()
        target = root if position == "root" else (root["n"] if position == "in_dict" else root["l"][1])
        target()                                            # the stale content is now cached in memory
        res.write_raw(copy.deepcopy(wrap(position, content)))   # outside writer
        for k, v in objattr.items():
            setattr(target, names[k], f"user{v}")
        return res, root, target
    if position == "root":
        res.write_raw(copy.deepcopy(content))
        root = res.new_object()
        target = root
    elif position == "in_dict":
        res.write_raw({"n": copy.deepcopy(content), "z": 1})
        root = res.new_object()
        target = root["n"]
    else:
        res.write_raw({"l": [0, copy.deepcopy(content)]})
        root = res.new_object()
        target = root["l"][1]
    for k, v in objattr.items():
        object.__setattr__(target, names[k], f"user{v}") if False else setattr(target, names[k], f"user{v}")
    return res, root, target


def wrap(position, content):
    if position == "root":
        return content
    if position == "in_dict":
        return {"n": content, "z": 1}
    return {"l": [0, content]}


def stale_of(data, rnd):
    """Another content over the same abstract names (values flipped, a key dropped or added)."""
    st = {k: (3 - v if rnd.random() < 0.7 else v) for k, v in data.items() if rnd.random() < 0.85}
    for k in ("ord", "prot", "dun", "cls"):
        if k not in data and rnd.random() < 0.3:
            st[k] = rnd.choice((1, 2))
    return st


def run_edge(spec, position, edge, names, stale=None):
    problems = []
    data, objattr = edge["data"], edge["objattr"]
    if isinstance(data, list):
        data = {}
    if isinstance(objattr, list):
        objattr = {}
    lab = edge["last"]
    n_abs, kind, how, want = lab["name"], lab["kind"], lab["how"], lab["ret"]
    name = names[n_abs]
    if want == "object" and n_abs == "dun":
        want = "AttributeError"      # nothing of that name on the object
    res, root, target = build(spec, position, data, objattr, names, stale=stale)
    try:
        internals0 = {k: id(v) for k, v in vars(target).items()}
        v_new = 1
        if kind == "set":
            # value written = the value the model wrote
            d2 = edge["data2"] if not isinstance(edge["data2"], list) else {}
            o2 = edge["objattr2"] if not isinstance(edge["objattr2"], list) else {}
            v_new = (d2.get(n_abs) if how == "item" or n_abs not in o2 or (n_abs in d2 and d2.get(n_abs) != data.get(n_abs)) else o2.get(n_abs))
            if v_new is None:
                v_new = o2.get(n_abs, 1)
        try:
            if how == "item":
                if kind == "get":
                    got = str(target[name])
                elif kind == "set":
                    target[name] = v_new
                    got = "ok"
                else:
                    del target[name]
                    got = "ok"
            else:
                if kind == "get":
                    r = getattr(target, name)
                    if n_abs == "cls":
                        got = "classattr" if r == getattr(type(target), name).__get__(target, type(target)) or callable(r) else str(r)
                    elif n_abs in ("prot", "dun"):
                        got = ("obj" + str(r)[4:]) if isinstance(r, str) and r.startswith("user") else "object"
                    else:
                        got = str(r)
                elif kind == "set":
                    setattr(target, name, v_new if n_abs not in ("prot", "dun") else f"user{v_new}")
                    got = "ok"
                else:
                    delattr(target, name)
                    got = "ok"
        except AttributeError:
            got = "AttributeError"
        except KeyError:
            got = "KeyError"
        except Exception as e:  # noqa: BLE001
            got = type(e).__name__
        if got != want:
            problems.append(f"{how} {kind} {name!r}: got {got}, expected {want}")
        d2 = edge["data2"] if not isinstance(edge["data2"], list) else {}
        exp = wrap(position, {names[k]: v for k, v in d2.items()})
        raw = res.read_raw()
        if kind != "get" and got == "ok":
            if raw != exp:
                problems.append(f"after {how} {kind} {name!r} the backend holds {raw!r}, expected {exp!r}")
        try:
            seen = root()
            if seen != exp and not (raw is env.MISSING and exp in ({},)):
                problems.append(f"after {how} {kind} {name!r} the collection is {seen!r}, expected {exp!r}")
        except Exception as e:  # noqa: BLE001
            problems.append(f"collection unusable after {how} {kind} {name!r}: {type(e).__name__}: {e}")
        if how == "item" or n_abs == "ord":
            now = {k: id(v) for k, v in vars(target).items()}
            changed = [k for k in internals0 if k in now and now[k] != internals0[k] and k not in ("_data",)]
            gone = [k for k in internals0 if k not in now]
            added = [k for k in now if k not in internals0]
            if changed or gone or added:
                problems.append(f"{how} {kind} {name!r} disturbed the object's attributes: changed={changed} gone={gone} added={added}")
        return problems
    finally:
        res.dispose()


def _job(args):
    spec_name, jobs = args
    env.install()
    spec = env.spec_by_name(spec_name)
    out = []
    for (position, edge, names, stale) in jobs:
        try:
            pr = run_edge(spec, position, edge, names, stale=stale)
        except Exception:  # noqa: BLE001
            import traceback
            pr = ["HARNESS " + traceback.format_exc(limit=5)]
        for p in pr:
            out.append({"cls": spec_name, "position": position, "op": f"{edge['last']['how']}-{edge['last']['kind']}",
                        "name": names[edge["last"]["name"]], "nameclass": edge["last"]["name"],
                        "aspect": "harness" if p.startswith("HARNESS") else "attr", "detail": p, "edge": edge, "names": names, "stale": stale,
                        "replay_fn": ["chk_attr", "replay"]})
    return out


def replay(prop, case):
    env.install()
    pr = run_edge(env.spec_by_name(case["cls"]), case["position"], case["edge"], case["names"], stale=case.get("stale"))
    if pr:
        print(f"VIOLATION property={prop} replay={__import__('os').environ.get('VERIF_REPLAY_PATH', '-')} {pr[0]}")
        return 1
    print("not reproduced on this tree")
    return 0


def family_walk(obj, root_backend, path="root"):
    """Every container in the in-memory tree must be a synced collection of the root's backend family."""
    bad = []
    d = getattr(obj, "_data", None)
    items = d.items() if isinstance(d, dict) else enumerate(d or [])
    for k, v in items:
        if isinstance(v, (dict, list, tuple)):
            bad.append(f"{path}[{k!r}] is a plain {type(v).__name__}")
        elif hasattr(v, "_to_base"):
            if getattr(type(v), "_backend", None) != root_backend:
                bad.append(f"{path}[{k!r}] is {type(v).__name__} (backend {type(v)._backend}) under root backend {root_backend}")
            if v._root is not (obj._root if obj._root is not None else obj):
                bad.append(f"{path}[{k!r}] has a different root object")
            bad += family_walk(v, root_backend, f"{path}[{k!r}]")
    return bad


def family_checks(run, tier):
    """Type walk after operation sequences / reloads (also kind-changing ones) for all 18 classes and in
    nested buffered contexts."""
    rnd = random.Random(common.seed())
    docs_d = [{"a": {"b": [1, {"c": []}]}, "l": [[{"x": {}}]]}, {"a": [1], "l": {"q": [{}]}}, {"a": 1}, {}]
    docs_l = [[{"b": [1, {"c": []}]}, [[{"x": {}}]]], [[1], {"q": [{}]}], [1], []]
    n = 0
    for spec in env.matrix():
        docs = docs_d if spec.kind == "d" else docs_l
        for rep in range(6 if tier == "quick" else 40):
            res = spec.new_resource()
            try:
                res.write_raw(copy.deepcopy(docs[0]))
                o = res.new_object()
                o()
                steps = []
                for _ in range(5):
                    choice = rnd.randrange(6)
                    steps.append(choice)
                    if choice == 0:
                        res.write_raw(copy.deepcopy(rnd.choice(docs)))      # outside writer, kinds may change
                        o()
                    elif choice == 1:
                        if spec.kind == "d":
                            o["new"] = copy.deepcopy(rnd.choice(docs_d + docs_l))
                        else:
                            o.append(copy.deepcopy(rnd.choice(docs_d + docs_l)))
                    elif choice == 5:
                        # the value is itself a node of ANOTHER document (other class family / backend): it must be
                        # converted into this root's family, not adopted
                        others = [s2 for s2 in env.matrix() if s2.name != spec.name]
                        s2 = rnd.choice(others)
                        r2 = s2.new_resource()
                        try:
                            r2.write_raw({"n": {"b": [1, {"c": []}]}, "l": [[{"x": {}}]]} if s2.kind == "d" else [{"b": [1, {"c": []}]}, [[{"x": {}}]]])
                            src = r2.new_object()
                            node = src["n" if s2.kind == "d" else 0] if rnd.random() < 0.7 else src
                            if spec.kind == "d":
                                o["foreign"] = node
                            else:
                                o.append(node)
                        finally:
                            r2.dispose()
                    elif choice == 2:
                        o.reset(copy.deepcopy(rnd.choice(docs)))
                    elif choice == 3 and spec.strategy:
                        with spec.cls.buffer_backend():
                            with o.buffered:
                                pass
                            o()
                    elif choice == 4 and spec.strategy:
                        with o.buffered:
                            if spec.kind == "d":
                                o.setdefault("k", {"deep": [{}]})
                            else:
                                o.insert(0, {"deep": [{}]})
                    bad = family_walk(o, type(o)._backend)
                    n += 1
                    if bad:
                        run.violation({"cls": spec.name, "op": "family-walk", "aspect": "family", "steps": steps,
                                       "detail": f"after steps {steps}: {bad[:3]}"})
                        break
                    # mutating the deepest container must persist
                env.reset_class_state()
            finally:
                res.dispose()
    run.cov["evaluations"] += n
    run.cov["family_walks"] = n


def check_C18(tier):
    run = common.Run("C18", tier)
    run.cov["rule"] = ("Attr.tla: names x {get,set,del} x {attribute, item} from every reachable small state, enumerated "
                       "by TLC and executed with concrete names of each class (ordinary incl. '_id', a non-identifier; every "
                       "member of _PROTECTED_KEYS; dunders; public method names) on the 6 attribute-access dict classes at "
                       "depth 0, 1 (in a dict) and 2 (in a list), 45 % of them after the object had cached OTHER content and an outside "
                       "writer stored the pre-state (Attr!Ext): result / exception class, backend content, collection "
                       "content and identity of the object's attributes; reflection: every instance attribute present after "
                       "construction must be protected; type walk of the in-memory tree (all 18 classes) after random "
                       "operation / reload / buffered-context sequences, incl. assigning nodes of documents of other classes / backends")
    run.assumptions += ["writing an attribute that is an existing class attribute (method name) is unspecified and not asserted",
                        "Redis/MongoDB/Zarr on fakes"]
    cfg = tlc.cfg_text(constants={"Names": '{"ord", "prot", "dun", "cls"}', "Class": "<- MCClass"},
                       properties=["C18_ItemsNeverTouchObject", "C18_ObjectNamesNeverTouchData", "C18_AttrEqualsItem",
                                   "C18_OutsideWriteNeverTouchesObject"],
                       action_constraints=["Export"], view="view")
    res = tlc.run("MC_Attr", cfg, name="attr", timeout=600)
    if not res.ok:
        run.machinery_error(f"TLC MC_Attr: {res.violated} {res.errors[:2]} {res.tail(10)}")
        return run.finish()
    run.add_tlc(res, "Attr.tla 4 name classes")
    edges = [val.norm(e) for e in res.records("EDGE")]
    rnd = random.Random(common.seed())
    attr_specs = [s for s in env.matrix() if s.fam == "attr" and s.kind == "d"]
    jobs = []
    for spec in attr_specs:
        probe_res = spec.new_resource()
        probe = probe_res.new_object()
        assigned, unassigned = prot_names(probe)
        # reflection: a constructor-assigned attribute that is not protected would be shadowed by data
        for n in vars(probe):
            if n not in type(probe)._PROTECTED_KEYS and not n.startswith("__"):
                run.violation({"cls": spec.name, "op": "reflection", "aspect": "attr", "name": n,
                               "detail": f"instance attribute {n!r} is not in _PROTECTED_KEYS: the key {n!r} would be shadowed / overwritten"})
        probe_res.dispose()
        safe_prot = [n for n in ("_write_concern",) if n in assigned]
        for position in ("root", "in_dict", "in_list"):
            es = edges if tier == "thorough" else rnd.sample(edges, 700)
            js = []
            for e in es:
                names = {"ord": rnd.choice(CONCRETE["ord"]), "dun": rnd.choice(CONCRETE["dun"]),
                         "cls": rnd.choice(CONCRETE["cls"]), "prot": safe_prot[0] if safe_prot else "_write_concern"}
                lab = e["last"]
                oa = e["objattr"] if isinstance(e["objattr"], dict) else {}
                if lab["name"] == "prot" and lab["how"] == "item" and "prot" not in oa:
                    names["prot"] = rnd.choice(sorted(type(probe)._PROTECTED_KEYS))   # item access with ANY protected name
                if lab["name"] == "prot" and lab["how"] == "attr" and lab["kind"] == "get" and "prot" not in (e["objattr"] if isinstance(e["objattr"], dict) else {}):
                    names["prot"] = rnd.choice(assigned)
                d_ = e["data"] if isinstance(e["data"], dict) else {}
                js.append((position, e, names, stale_of(d_, rnd) if rnd.random() < 0.45 else None))
                run._distinct.add((val.canon(e["last"]), names[lab["name"]]))
            for ch in common.chunks(js, 3):
                jobs.append((spec.name, ch))
        # protected names no constructor assigns: reading them must not fall through to the data
        for n in unassigned:
            r2 = spec.new_resource()
            r2.write_raw({n: "from-data"})
            o = r2.new_object()
            try:
                got = getattr(o, n)
                run.violation({"cls": spec.name, "op": "attr-get", "aspect": "attr", "name": n, "nameclass": "unassigned-protected",
                               "detail": f"obj.{n} returned the data value {got!r}; protected names must address the object itself"})
            except AttributeError:
                pass
            finally:
                r2.dispose()
            run.case(("unassigned", spec.name, n))
    rnd.shuffle(jobs)
    for out in common.pmap(_job, jobs):
        for v in out:
            if v["aspect"] == "harness":
                run.machinery_error(v["detail"])
            else:
                run.violation(v)
    n = sum(len(j[1]) for j in jobs)
    run.cov["evaluations"] += n
    run.cov["traces_validated_against_impl"] += n
    family_checks(run, tier)
    run.cov["classes"] = [s.name for s in attr_specs]
    run.sample({"name": "_id", "class": "ordinary", "action": "del obj._id (missing)", "expect": "AttributeError"})
    return run.finish()
