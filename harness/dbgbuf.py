"""debug: run one buffered input sequence (json file or replay file) and show per-relaxation progress."""
import json, sys
from . import env
env.install()
from . import bufrun, chk_buf, common
case = json.load(open(sys.argv[1]))
case = case.get("case", case)
spec = env.spec_by_name(case["cls"])
inputs = [{"a": "init", "docs": case["init"]["docs"], "ex": case["init"]["ex"]}] + case["inputs"]
t = bufrun.run_inputs(spec, case["scen"], inputs)
for i, e in enumerate(t["ev"], 1):
    print(i, json.dumps(e["in"])[:110], "->", json.dumps(e["ret"])[:80], e["errs"], e["kind"], "size", e["size"], "cap", e["cap"],
          {f: (json.dumps(v["doc"])[:60], v["ex"], v["w"]) for f, v in e["files"].items()})
run = common.Run("DBG", "quick")
for rx in ("",) + chk_buf.CLAUSES:
    print("relax", rx or "-", chk_buf.validate(run, case["strategy"], case["kind"], case["scen"], [t], relax=rx, tag="dbg"), "of", len(t["ev"]) + 1)
print(run.machinery_errors[:2])
