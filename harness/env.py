"""Import of the code under test, fakes for the absent database packages, the class matrix and
resource helpers ("read independently of the library").

VERIF_REPO (default /repo) selects the tree under test; it is put first on sys.path before
anything imports synced_collections, so checks always exercise the current working tree.
"""
import copy
import importlib
import json
import os
import shutil
import sys
import tempfile
import types
import uuid

REPO = os.environ.get("VERIF_REPO", "/repo")
GUARD = "SYNCED_COLLECTIONS_VERIF"

_installed = False


# ------------------------------------------------------------------ fakes (trusted base)
class FakeRedis:
    """The two calls RedisCollection makes: get / set of bytes."""

    def __init__(self):
        self.store = {}
        self.writes = 0

    def get(self, key):
        return self.store.get(key)

    def set(self, key, blob):
        if not isinstance(blob, (bytes, str, int, float)):
            raise TypeError("redis accepts bytes/str/numbers only")
        self.store[key] = blob if isinstance(blob, bytes) else str(blob).encode()
        self.writes += 1


class InvalidDocument(Exception):
    pass


def _bson_check(x):
    if isinstance(x, dict):
        for k, v in x.items():
            if not isinstance(k, str):
                raise InvalidDocument(f"documents must have only string keys, key was {k!r}")
            _bson_check(v)
    elif isinstance(x, (list, tuple)):
        for v in x:
            _bson_check(v)
    elif isinstance(x, (str, float, bool, type(None), bytes)):
        pass
    elif isinstance(x, int):
        if not -2**63 <= x < 2**63:
            raise OverflowError("MongoDB can only handle up to 8-byte ints")
    else:
        raise InvalidDocument(f"cannot encode object: {x!r}, of type: {type(x)}")


class FakeMongoCollection:
    """find_one / replace_one(upsert) of whole documents; stores deep copies."""

    def __init__(self):
        self.docs = []
        self.writes = 0

    def _match(self, doc, flt):
        return all(doc.get(k) == v for k, v in flt.items())

    def find_one(self, flt):
        for d in self.docs:
            if self._match(d, flt):
                return copy.deepcopy(d)
        return None

    def replace_one(self, flt, doc, upsert=False):
        _bson_check(doc)
        doc = copy.deepcopy(doc)
        for i, d in enumerate(self.docs):
            if self._match(d, flt):
                self.docs[i] = doc
                self.writes += 1
                return
        if upsert:
            self.docs.append(doc)
            self.writes += 1


class FakeJSONCodec:
    def encode(self, x):
        return json.dumps(x).encode()

    def decode(self, b):
        return json.loads(b)


class _FakeDataset:
    def __init__(self, codec):
        self.codec = codec
        self.blob = None
        self.writes = 0

    def __setitem__(self, i, data):
        assert i == 0
        self.blob = self.codec.encode(data)
        self.writes += 1

    def __getitem__(self, i):
        assert i == 0
        return self.codec.decode(self.blob)


class FakeZarrGroup:
    def __init__(self):
        self.sets = {}
        self.writes = 0

    def require_dataset(self, name, overwrite=False, shape=None, dtype=None, object_codec=None):
        if overwrite or name not in self.sets:
            self.sets[name] = _FakeDataset(object_codec)
        return self.sets[name]

    def __getitem__(self, name):
        ds = self.sets[name]
        if ds.blob is None:
            raise KeyError(name)
        return ds

    def __deepcopy__(self, memo):
        return self


def fake_numpy():
    """Minimal stand-in for numpy (absent here): just what numpy_utils.py touches. Lets C19 exercise the
    instance-dependent classification of arrays (0-d vs n-d) and the cache blocklist."""
    np = types.ModuleType("numpy")

    class ndarray:  # noqa: N801
        def __init__(self, data, ndim):
            self._d, self.ndim = data, ndim

        def tolist(self):
            return self._d

        def item(self):
            return self._d

    class number:  # noqa: N801
        def __init__(self, v):
            self._v = v

        def item(self):
            return self._v

    class bool_(number):  # noqa: N801
        pass
    np.ndarray, np.number, np.bool_ = ndarray, number, bool_
    np.iscomplexobj = lambda x: isinstance(getattr(x, "_d", getattr(x, "_v", x)), complex)
    np.__fake__ = True
    return np


def install():
    """Put the tree under test first on sys.path and register the fake third-party modules."""
    global _installed
    if _installed:
        return
    _installed = True
    os.environ.setdefault(GUARD, "1")
    if REPO in sys.path:
        sys.path.remove(REPO)
    sys.path.insert(0, REPO)
    for m in list(sys.modules):
        if m == "synced_collections" or m.startswith("synced_collections."):
            raise RuntimeError("synced_collections imported before harness.env.install()")
    if "bson" not in sys.modules:
        bson = types.ModuleType("bson")
        errors = types.ModuleType("bson.errors")
        errors.InvalidDocument = InvalidDocument
        bson.errors = errors
        sys.modules["bson"] = bson
        sys.modules["bson.errors"] = errors
    if os.environ.get("VERIF_FAKE_NUMPY") and "numpy" not in sys.modules:
        sys.modules["numpy"] = fake_numpy()
    if "numcodecs" not in sys.modules:
        nc = types.ModuleType("numcodecs")
        nc.JSON = FakeJSONCodec
        sys.modules["numcodecs"] = nc


def lib():
    """Namespace with every class under test (imported on first use)."""
    install()
    ns = types.SimpleNamespace()
    ns.sc = importlib.import_module("synced_collections")
    ns.json = importlib.import_module("synced_collections.backends.collection_json")
    ns.redis = importlib.import_module("synced_collections.backends.collection_redis")
    ns.mongo = importlib.import_module("synced_collections.backends.collection_mongodb")
    ns.zarr = importlib.import_module("synced_collections.backends.collection_zarr")
    ns.errors = importlib.import_module("synced_collections.errors")
    ns.utils = importlib.import_module("synced_collections.utils")
    ns.validators = importlib.import_module("synced_collections.validators")
    f = getattr(ns.sc, "__file__", "")
    if not os.path.abspath(f).startswith(os.path.abspath(REPO) + os.sep):
        raise RuntimeError(f"synced_collections imported from {f}, expected under {REPO}")
    return ns


# ------------------------------------------------------------------ scratch
_scratch = None


def scratch_dir():
    global _scratch
    if _scratch is None:
        base = "/dev/shm" if os.path.isdir("/dev/shm") and os.access("/dev/shm", os.W_OK) else None
        _scratch = tempfile.mkdtemp(prefix="verif-sc-", dir=base)
        import atexit

        atexit.register(shutil.rmtree, _scratch, True)
    return _scratch


MISSING = object()


class Corrupt:
    """Raw resource content that is not parseable (never equal to any expected content)."""

    def __init__(self, blob):
        self.blob = blob

    def __repr__(self):
        return f"<unparseable {self.blob[:80]!r}>"


# ------------------------------------------------------------------ resources
class Resource:
    """One backing resource + the means to read/write it without the library."""

    def __init__(self, spec):
        self.spec = spec

    def new_object(self, **kw):
        raise NotImplementedError

    def read_raw(self):
        raise NotImplementedError

    def write_raw(self, data):
        raise NotImplementedError

    def exists(self):
        return self.read_raw() is not MISSING

    def write_count(self):
        return None

    def dispose(self):
        pass


class JSONFile(Resource):
    def __init__(self, spec, path=None):
        super().__init__(spec)
        self.path = path or os.path.join(scratch_dir(), uuid.uuid4().hex + ".json")

    def new_object(self, write_concern=False, data=None):
        kw = {}
        if data is not None:
            kw["data"] = data
        return self.spec.cls(filename=self.path, write_concern=write_concern, **kw)

    def read_raw(self):
        try:
            with open(self.path, "rb") as f:
                blob = f.read()
        except FileNotFoundError:
            return MISSING
        try:
            return json.loads(blob)
        except ValueError:
            return Corrupt(blob)

    def read_bytes(self):
        try:
            with open(self.path, "rb") as f:
                return f.read()
        except FileNotFoundError:
            return None

    def write_raw(self, data, bump=True, style=0):
        """Outside writer: replace the file content; always detectably (mtime bumped).
        style=1: another program's serialisation of the SAME value (keys in reverse order, indented)."""
        old = None
        try:
            old = os.stat(self.path)
        except FileNotFoundError:
            pass
        if data is MISSING:
            if old is not None:
                os.unlink(self.path)
            return
        with open(self.path, "wb") as f:
            f.write((json.dumps(_reversed_keys(data), indent=1) if style else json.dumps(data)).encode())
        if bump and old is not None:
            st = os.stat(self.path)
            if st.st_mtime_ns <= old.st_mtime_ns:
                ns = old.st_mtime_ns + 1_000_000
                os.utime(self.path, ns=(ns, ns))

    def stat(self):
        try:
            st = os.stat(self.path)
            return (st.st_ino, st.st_size, st.st_mtime_ns)
        except FileNotFoundError:
            return None

    def dispose(self):
        try:
            os.unlink(self.path)
        except FileNotFoundError:
            pass


def _reversed_keys(x):
    if isinstance(x, dict):
        return {k: _reversed_keys(x[k]) for k in reversed(list(x))}
    if isinstance(x, list):
        return [_reversed_keys(v) for v in x]
    return x


class RedisKey(Resource):
    def __init__(self, spec):
        super().__init__(spec)
        self.client = FakeRedis()
        self.key = "k-" + uuid.uuid4().hex[:8]

    def new_object(self, data=None, **_):
        kw = {} if data is None else {"data": data}
        return self.spec.cls(client=self.client, key=self.key, **kw)

    def read_raw(self):
        b = self.client.store.get(self.key)
        return MISSING if b is None else json.loads(b)

    def write_raw(self, data, bump=True):
        if data is MISSING:
            self.client.store.pop(self.key, None)
        else:
            self.client.store[self.key] = json.dumps(data).encode()

    def write_count(self):
        return self.client.writes


class MongoDoc(Resource):
    def __init__(self, spec):
        super().__init__(spec)
        self.coll = FakeMongoCollection()
        self.uid = {"uid": uuid.uuid4().hex[:8]}

    def new_object(self, data=None, **_):
        kw = {} if data is None else {"data": data}
        return self.spec.cls(collection=self.coll, uid=dict(self.uid), **kw)

    def read_raw(self):
        d = self.coll.find_one(self.uid)
        return MISSING if d is None else d["data"]

    def write_raw(self, data, bump=True):
        self.coll.docs = [d for d in self.coll.docs if not self.coll._match(d, self.uid)]
        if data is not MISSING:
            self.coll.docs.append({**self.uid, "data": copy.deepcopy(data)})

    def write_count(self):
        return self.coll.writes


class ZarrArray(Resource):
    def __init__(self, spec):
        super().__init__(spec)
        self.group = FakeZarrGroup()
        self.name = "n" + uuid.uuid4().hex[:8]

    def new_object(self, data=None, **_):
        kw = {} if data is None else {"data": data}
        return self.spec.cls(group=self.group, name=self.name, **kw)

    def read_raw(self):
        ds = self.group.sets.get(self.name)
        if ds is None or ds.blob is None:
            return MISSING
        return json.loads(ds.blob)

    def write_raw(self, data, bump=True):
        if data is MISSING:
            self.group.sets.pop(self.name, None)
        else:
            ds = _FakeDataset(FakeJSONCodec())
            ds.blob = json.dumps(data).encode()
            self.group.sets[self.name] = ds

    def write_count(self):
        return sum(d.writes for d in self.group.sets.values())


class ClassSpec:
    def __init__(self, name, cls, kind, fam, backend, strategy, res_type):
        self.name = name
        self.cls = cls
        self.kind = kind          # "d" / "l"
        self.fam = fam            # "json" / "attr"  (which data the family forbids)
        self.backend = backend    # json / redis / mongo / zarr
        self.strategy = strategy  # None / "serialized" / "memory"
        self.res_type = res_type

    def new_resource(self):
        return self.res_type(self)

    def __repr__(self):
        return self.name


_matrix = None


def matrix():
    global _matrix
    if _matrix is None:
        L = lib()
        m = []
        for prefix, strategy in (("", None), ("Buffered", "serialized"), ("MemoryBuffered", "memory")):
            for attr in ("", "Attr"):
                for k, suffix in (("d", "Dict"), ("l", "List")):
                    name = f"{prefix}JSON{attr}{suffix}"
                    m.append(ClassSpec(name, getattr(L.json, name), k, "attr" if attr else "json",
                                       "json", strategy, JSONFile))
        for mod, pre, backend, rt in ((L.redis, "Redis", "redis", RedisKey),
                                      (L.mongo, "MongoDB", "mongo", MongoDoc),
                                      (L.zarr, "Zarr", "zarr", ZarrArray)):
            for k, suffix in (("d", "Dict"), ("l", "List")):
                name = pre + suffix
                m.append(ClassSpec(name, getattr(mod, name), k, "json", backend, None, rt))
        _matrix = m
    return _matrix


def specs(kind=None, backend=None, names=None, buffered=None, fam=None):
    out = []
    for s in matrix():
        if kind and s.kind != kind:
            continue
        if backend and s.backend != backend:
            continue
        if names and s.name not in names:
            continue
        if buffered is True and s.strategy is None:
            continue
        if buffered is False and s.strategy is not None:
            continue
        if fam and s.fam != fam:
            continue
        out.append(s)
    return out


def spec_by_name(name):
    for s in matrix():
        if s.name == name:
            return s
    raise KeyError(name)


def reset_class_state():
    """Bring class-level buffer state back to pristine between independent cases."""
    for s in matrix():
        c = s.cls
        if s.strategy is not None:
            c._buffer.clear()
            c._buffered_collections.clear()
            c._CURRENT_BUFFER_SIZE = 0
            ctx = c._buffer_context
            ctx._count = 0
            if hasattr(ctx, "_original_buffer_capacitys"):
                ctx._original_buffer_capacitys.clear()
                ctx._buffer_capacity = None
            c._BUFFER_CAPACITY = 32 * 2**20 if s.strategy == "serialized" else 1000
        if hasattr(c, "_locks"):
            c._locks.clear()
