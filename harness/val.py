"""Tagged-value encoding shared by the TLA+ specs and the harness.

TLA+ side (spec/JsonValue.tla):  scalar [t |-> atom] ; dict [t |-> "d", m |-> fn] ;
list [t |-> "l", s |-> seq].  JSON side (ToJson / JsonDeserialize): {"t": atom},
{"t":"d","m":{...}}, {"t":"l","s":[...]}  (an empty function prints as []).
"""
import json

NONE = 99  # "argument absent" sentinel used by PyOps.tla


class BadLeaf:
    """A value no JSON backend can represent (atom "x")."""

    def __repr__(self):
        return "<BadLeaf>"


BAD = BadLeaf()
_NONSTR_KEYS = {"#1": 1, "#n": None}
_NONSTR_KEYS_INV = {1: "#1", None: "#n"}


def key_to_py(k):
    return _NONSTR_KEYS.get(k, k)


def key_from_py(k):
    if isinstance(k, str):
        return k
    return _NONSTR_KEYS_INV[k]


def atom_to_py(a, pool=None):
    """Concrete Python scalar for an atom. `pool` may map atoms to alternative concretisations."""
    if pool is not None and a in pool:
        return pool[a]
    if a == "n":
        return None
    if a == "T":
        return True
    if a == "F":
        return False
    if a == "x":
        return BAD
    if a[0] == "i" and a[1:].isdigit():
        return int(a[1:])
    if a[0] == "f" and a[1:].isdigit():
        return float(a[1:])
    if a[0] == "s":
        return a[1:]
    raise ValueError(f"unknown atom {a!r}")


def atom_from_py(x):
    if x is None:
        return "n"
    if x is True:
        return "T"
    if x is False:
        return "F"
    if isinstance(x, BadLeaf):
        return "x"
    if isinstance(x, int):
        return f"i{x}"
    if isinstance(x, float):
        if x == int(x) and x >= 0:
            return f"f{int(x)}"
        return f"f?{x!r}"
    if isinstance(x, str):
        return "s" + x
    return "x"


def to_py(v, pool=None, tuples=False):
    """Tagged JSON value -> plain Python data."""
    t = v["t"]
    if t == "d":
        body = v["m"]
        if isinstance(body, list):  # empty function
            assert not body
            return {}
        return {key_to_py(k): to_py(x, pool, tuples) for k, x in body.items()}
    if t == "l":
        items = [to_py(x, pool, tuples) for x in v["s"]]
        return tuple(items) if tuples else items
    return atom_to_py(t, pool)


def from_py(x):
    """Plain Python data (or anything dict/list-like already converted) -> tagged JSON value."""
    if isinstance(x, dict):
        return {"t": "d", "m": {key_from_py(k): from_py(y) for k, y in x.items()}}
    if isinstance(x, (list, tuple)):
        return {"t": "l", "s": [from_py(y) for y in x]}
    return {"t": atom_from_py(x)}


def canon(v):
    """Canonical hashable string of a tagged value / any JSON structure."""
    return json.dumps(_norm(v), sort_keys=True, separators=(",", ":"))


EMPTY_D = '{"m":{},"t":"d"}'
EMPTY_L = '{"s":[],"t":"l"}'


def _norm(v):
    if isinstance(v, dict):
        if v.get("t") in ("d", "bag", "items") and isinstance(v.get("m"), list):
            return {"t": v["t"], "m": {}}
        return {k: _norm(x) for k, x in v.items()}
    if isinstance(v, list):
        return [_norm(x) for x in v]
    return v


def norm(v):
    return _norm(v)


def same_typed(a, b):
    """Equality of plain Python data that also distinguishes bool/int/float at leaves."""
    if type(a) is not type(b):
        # allow list/tuple difference only for containers
        return False
    if isinstance(a, dict):
        return a.keys() == b.keys() and all(same_typed(a[k], b[k]) for k in a)
    if isinstance(a, (list, tuple)):
        return len(a) == len(b) and all(same_typed(x, y) for x, y in zip(a, b))
    return a == b or (a != a and b != b)


def plain(x):
    """Deep-convert any Mapping/Sequence (synced or not) to built-in dict/list WITHOUT calling x()."""
    from collections.abc import Mapping, Sequence

    if isinstance(x, Mapping):
        return {k: plain(x[k]) for k in list(x)}
    if isinstance(x, Sequence) and not isinstance(x, (str, bytes)):
        return [plain(y) for y in x]
    return x
