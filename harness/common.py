"""Plumbing shared by all checks: tiers/seeds, evidence files, replays, known findings, verdicts."""
import json
import os
import re
import sys
import time

VERIF = os.path.dirname(os.path.dirname(os.path.abspath(__file__)))
EVIDENCE_DIR = os.environ.get("VERIF_EVIDENCE_DIR") or os.path.join(VERIF, "evidence")
REPLAY_DIR = os.environ.get("VERIF_REPLAY_DIR") or os.path.join(VERIF, "replays")
FINDINGS_FILE = os.path.join(VERIF, "known_findings.json")


def seed():
    try:
        return int(os.environ.get("VERIF_SEED", "0"))
    except ValueError:
        return 0


def load_findings():
    try:
        with open(FINDINGS_FILE) as f:
            data = json.load(f)
    except FileNotFoundError:
        return []
    return [e for e in data.get("findings", []) if e.get("status", "open") == "open"]


def _sig_match(sig, case):
    """Every key of the signature must match the violating case (regex for strings)."""
    for k, want in sig.items():
        got = case.get(k)
        if isinstance(want, str):
            if got is None or not re.fullmatch(want, str(got)):
                return False
        elif isinstance(want, list):
            if got not in want:
                return False
        elif got != want:
            return False
    return True


class Run:
    """One execution of one check: collects coverage counters, violations, known findings."""

    def __init__(self, prop, tier, level="model_checking"):
        self.prop = prop
        self.tier = tier
        self.level = level
        self.t0 = time.time()
        self.cov = {"states": 0, "transitions": 0, "traces_validated_against_impl": 0,
                    "samples": [], "evaluations": 0, "distinct_nontrivial": 0}
        self.assumptions = []
        self.violations = []
        self.coverage_errors = []
        self.known_seen = {}
        self.notes = []
        self._distinct = set()
        self.findings = [f for f in load_findings() if f["property"] == prop]
        self.machinery_errors = []

    # ---- coverage
    def add_tlc(self, res, what):
        self.cov["states"] += res.distinct
        self.cov["transitions"] += res.generated
        self.cov.setdefault("tlc_runs", []).append(
            {"what": what, "generated": res.generated, "distinct": res.distinct,
             "depth": res.depth, "wall_s": round(res.wall, 2)})

    def count(self, key, n=1):
        self.cov[key] = self.cov.get(key, 0) + n

    def case(self, key, nontrivial=True):
        """Count one executed case; `key` identifies it for the distinct count."""
        self.cov["evaluations"] += 1
        if nontrivial:
            self._distinct.add(key)

    def sample(self, s, limit=6):
        if len(self.cov["samples"]) < limit:
            self.cov["samples"].append(s)

    # ---- verdicts
    def violation(self, case):
        """Record a violating case (dict). It is attributed to a known finding iff a signature matches."""
        for f in self.findings:
            if _sig_match(f["signature"], case):
                k = f["id"]
                if k not in self.known_seen:
                    self.known_seen[k] = {"finding": f, "count": 0, "example": case}
                self.known_seen[k]["count"] += 1
                return False
        if len(self.violations) < 50:
            self.violations.append(case)
        else:
            self.cov["violations_truncated"] = self.cov.get("violations_truncated", 0) + 1
        return True

    def machinery_error(self, msg):
        self.machinery_errors.append(msg)

    def coverage_error(self, msg):
        """A vacuity finding about REAL executions ("no observed save used a temp file"): a machinery error when nothing
        else was found, but not allowed to mask violations established on the same executions (a change of the code
        can be the reason why an action was never observed)."""
        self.coverage_errors.append(msg)

    def finish(self):
        if self.coverage_errors:
            if self.violations:
                self.cov["coverage_notes"] = self.coverage_errors
            else:
                self.machinery_errors += self.coverage_errors
        self.cov["distinct_nontrivial"] = len(self._distinct)
        wall = time.time() - self.t0
        os.makedirs(EVIDENCE_DIR, exist_ok=True)
        stale = [f["id"] for f in self.findings if f["id"] not in self.known_seen
                 and f.get("tiers", ["quick", "thorough"]).count(self.tier)]
        if stale:
            self.cov["known_findings_not_reproduced_this_run"] = stale
        self.cov["known_findings_seen"] = {k: v["count"] for k, v in self.known_seen.items()}
        if self.notes:
            self.cov["notes"] = self.notes
        paths = []
        if self.violations:
            os.makedirs(REPLAY_DIR, exist_ok=True)
            for i, v in enumerate(self.violations[:10]):
                p = os.path.join(REPLAY_DIR, f"{self.prop}-{self.tier}-{i}.json")
                with open(p, "w") as f:
                    json.dump({"property": self.prop, "case": v}, f, indent=1, default=repr)
                paths.append(p)
        ev = {"property_id": self.prop, "tier": self.tier, "seed": seed(), "level": self.level,
              "coverage": self.cov, "assumptions": self.assumptions, "wall_s": round(wall, 2),
              "violations": len(self.violations)}
        if self.machinery_errors:
            ev["coverage"]["machinery_errors"] = self.machinery_errors
        with open(os.path.join(EVIDENCE_DIR, f"{self.prop}.json"), "w") as f:
            json.dump(ev, f, indent=1, default=repr)
        for k, v in self.known_seen.items():
            print(f"KNOWN-FINDING: property={self.prop} {k}: {v['finding']['what']} "
                  f"({v['count']} cases this run)")
        if self.machinery_errors:
            for m in self.machinery_errors:
                print(f"MACHINERY-ERROR: {m}", file=sys.stderr)
            return 2
        if self.violations:
            for p in paths:
                print(f"VIOLATION property={self.prop} replay={p}")
            v = self.violations[0]
            print("first violation:", json.dumps(v, default=repr)[:1500])
            return 1
        print(f"OK property={self.prop} tier={self.tier} states={self.cov['states']} "
              f"transitions={self.cov['transitions']} impl_traces={self.cov['traces_validated_against_impl']} "
              f"evaluations={self.cov['evaluations']} wall={wall:.1f}s")
        return 0


def chunks(seq, n):
    k = max(1, (len(seq) + n - 1) // n)
    return [seq[i:i + k] for i in range(0, len(seq), k)]


def pmap(fn, jobs, procs=None):
    """Run fn over jobs in a process pool (fork), preserving order."""
    import multiprocessing as mp

    procs = procs or min(len(jobs), os.cpu_count() or 4)
    from . import env
    env.scratch_dir()   # created (and registered for removal) in the parent, inherited by the workers
    if procs <= 1 or len(jobs) <= 1:
        return [fn(j) for j in jobs]
    ctx = mp.get_context("fork")
    with ctx.Pool(procs) as pool:
        return pool.map(fn, jobs, chunksize=1)
