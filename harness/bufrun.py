"""Execute input sequences generated from MC_BufContract on the real buffered classes and record
what is observable after every step (the trace format consumed by spec/TraceBuf.tla)."""
import copy
import os

from . import env, realize, val

FILE_OF = {"A": "f1", "B": "f1", "C": "f2"}
SCEN_OBJS = {"one": ["A"], "shared": ["A", "B"], "two": ["A", "C"], "multi": ["A", "B", "C"]}
SCEN_FILES = {"one": ["f1"], "shared": ["f1"], "two": ["f1", "f2"], "multi": ["f1", "f2"]}


def class_for(strategy, kind, attr=False):
    name = ("Buffered" if strategy == "serialized" else "MemoryBuffered") + "JSON" + \
        ("Attr" if attr else "") + ("Dict" if kind == "d" else "List")
    return env.spec_by_name(name)


def _enc_ret(obs, files_by_path):
    kind, got = obs
    if kind == "err":
        e = got
        name = type(e).__name__
        if name == "BufferedError":
            return {"t": "!", "e": "BufferedError",
                    "files": sorted(files_by_path.get(os.path.abspath(p), p) for p in e.files)}
        if name == "MetadataError":
            return {"t": "!", "e": "MetadataError", "files": [files_by_path.get(os.path.abspath(e.filename), "?")]}
        return {"t": "!", "e": realize.err_class(e), "files": []}
    if isinstance(got, tuple) and got and got[0] == "keys":
        return {"t": "keys", "ks": [val.key_from_py(k) for k in got[1]]}
    if isinstance(got, tuple) and got and got[0] == "items":
        g = realize.to_plain(got[1])
        return {"t": "items", "m": val.from_py({p[0]: p[1] for p in g})["m"]}
    if isinstance(got, tuple) and got and got[0] == "bag":
        return {"t": "bag", "s": [val.from_py(x) for x in realize.to_plain(got[1])]}
    if isinstance(got, tuple) and got and got[0] == "self":
        return {"t": "self"} if got[1] else {"t": "notself"}
    return val.from_py(realize.to_plain(got))


def _errs(e, files_by_path):
    name = type(e).__name__
    if name == "BufferedError":
        return sorted(files_by_path.get(os.path.abspath(p), str(p)) for p in e.files), "BufferedError"
    if name == "MetadataError":
        return [files_by_path.get(os.path.abspath(e.filename), "?")], "MetadataError"
    return [], name


def run_inputs(spec, scen, inputs, variant_rnd=None, write_concern=False):
    """inputs[0] is the init record {"a":"init","docs":{f:doc},"ex":{f:bool}}. Returns the trace dict."""
    env.reset_class_state()
    cls = spec.cls
    init = inputs[0]
    res = {}
    for f in SCEN_FILES[scen]:
        r = res[f] = env.JSONFile(spec)
        if init["ex"][f]:
            r.write_raw(val.to_py(init["docs"][f]))
    by_path = {os.path.abspath(r.path): f for f, r in res.items()}
    objs = {o: res[FILE_OF[o]].new_object(write_concern=write_concern) for o in SCEN_OBJS[scen]}
    stack = []
    events = []
    cap0 = cls.get_buffer_capacity()
    prev = {f: r.stat() for f, r in res.items()}
    aborted = None
    try:
        for n, i in enumerate(inputs[1:], 1):
            a = i["a"]
            ev = {"in": i, "ret": {"t": "n"}, "errs": [], "kind": ""}
            ext_file = None
            try:
                if a == "op":
                    t = objs[i["o"]]
                    kind = "d" if spec.kind == "d" else "l"
                    v = variant_rnd.randrange(realize.n_variants(kind, i["op"])) if variant_rnd else 0
                    obs = realize.perform(t, i["op"], v)
                    ev["ret"] = _enc_ret(obs, by_path)
                    if obs[0] == "err" and type(obs[1]).__name__ not in (
                            "KeyError", "IndexError", "ValueError", "TypeError", "BufferedError",
                            "KeyTypeError", "InvalidKeyError"):
                        aborted = f"operation raised {type(obs[1]).__name__}: {obs[1]}"
                elif a == "enterO":
                    ctx = objs[i["o"]].buffered
                    ctx.__enter__()
                    stack.append(ctx)
                elif a == "enterB":
                    ctx = cls.buffer_backend(None if i["c"] == val.NONE else i["c"])
                    stack.append(ctx)   # the frame counts as open as soon as entering starts
                    ctx.__enter__()
                elif a == "setcap":
                    cls.set_buffer_capacity(i["c"])
                elif a == "exit":
                    ctx = stack.pop()
                    # a with-block may also be left by an exception of the user's code: the context
                    # must behave the same (the exception itself is not the library's business)
                    if variant_rnd is not None and variant_rnd.random() < 0.3:
                        exc = KeyError("raised by the user's code inside the with-block")
                        ctx.__exit__(KeyError, exc, None)
                    else:
                        ctx.__exit__(None, None, None)
                elif a == "ext":
                    ext_file = i["r"]
                    style = i.get("style", 1 if (variant_rnd is not None and variant_rnd.random() < 0.3) else 0)
                    res[i["r"]].write_raw(val.to_py(i["v"]), style=style)
            except Exception as e:  # noqa: BLE001
                ev["errs"], ev["kind"] = _errs(e, by_path)
                if ev["kind"] not in ("BufferedError", "MetadataError"):
                    aborted = f"{a} raised {type(e).__name__}: {e}"
            files = {}
            for f, r in res.items():
                raw = r.read_raw()
                st = r.stat()
                w = st != prev[f]
                prev[f] = st
                if isinstance(raw, env.Corrupt):
                    files[f] = {"doc": {"t": "corrupt"}, "ex": True, "w": w}
                    aborted = aborted or f"file {f} unparseable: {raw!r}"
                elif raw is env.MISSING:
                    files[f] = {"doc": val.from_py({} if spec.kind == "d" else []), "ex": False, "w": w}
                else:
                    files[f] = {"doc": val.from_py(raw), "ex": True, "w": w}
                if ext_file == f:
                    files[f]["w"] = True
            ev["files"] = files
            ev["size"] = cls.get_current_buffer_size()
            ev["cap"] = cls.get_buffer_capacity()
            if aborted:
                ev["aborted"] = aborted
            events.append(ev)
            if aborted:
                break
    finally:
        # unwind whatever is still open so that the next case starts clean
        while stack:
            try:
                stack.pop().__exit__(None, None, None)
            except Exception:  # noqa: BLE001
                pass
        env.reset_class_state()
        for r in res.values():
            r.dispose()
    return {"init": {"docs": init["docs"], "ex": init["ex"], "cap": cap0}, "ev": events,
            "cls": spec.name, "scen": scen, "aborted": aborted, "n_inputs": len(inputs) - 1}
