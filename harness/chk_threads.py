"""Concurrency checks: C09 (writers linearizable), C10 (no leaked lock / deadlock), C13 (buffered +
threads), C14 (readers next to writers).  Small multi-threaded programs are executed on the real
classes under the deterministic scheduler (harness/sched.py) for every schedule within a
preemption bound; the recorded call/return histories are judged by TLC against Lin.tla."""
import copy
import json
import os
import random
import re

from . import common, env, realize, sched, tlc, val

MUT_D = [
    {"op": "setitem", "k": "a", "x": {"t": "i2"}}, {"op": "setitem", "k": "c", "x": {"t": "d", "m": {"a": {"t": "i1"}}}},
    {"op": "delitem", "k": "a"}, {"op": "update", "x": {"t": "d", "m": {"b": {"t": "i2"}, "c": {"t": "i1"}}}},
    {"op": "setdefault", "k": "c", "y": {"t": "i1"}}, {"op": "pop", "k": "a", "y": {"t": "n"}},
    {"op": "clear"}, {"op": "reset", "x": {"t": "d", "m": {"z": {"t": "i1"}}}},
]
MUT_L = [
    {"op": "append", "x": {"t": "i2"}}, {"op": "extend", "x": {"t": "l", "s": [{"t": "i1"}, {"t": "n"}]}},
    {"op": "insert", "i": 0, "x": {"t": "n"}}, {"op": "setitem", "i": 0, "x": {"t": "i2"}}, {"op": "delitem", "i": 0},
    {"op": "pop", "i": val.NONE}, {"op": "remove", "x": {"t": "i1"}}, {"op": "reverse"},
    {"op": "iadd", "x": {"t": "l", "s": [{"t": "i2"}]}}, {"op": "clear"}, {"op": "reset", "x": {"t": "l", "s": [{"t": "i2"}]}},
]
READ_D = [{"op": "getitem", "k": "a"}, {"op": "get", "k": "b", "y": {"t": "n"}}, {"op": "len"}, {"op": "call"},
          {"op": "keys"}, {"op": "eq", "x": {"t": "d", "m": {"a": {"t": "i1"}}}}, {"op": "contains", "k": "a"}]
READ_L = [{"op": "getitem", "i": 0}, {"op": "len"}, {"op": "call"}, {"op": "iter"},
          {"op": "eq", "x": {"t": "l", "s": [{"t": "i1"}]}}, {"op": "contains", "x": {"t": "i1"}}]

INIT_D = {"a": 1, "b": [1], "n": {"a": 1, "b": None}, "l": [1, None]}
INIT_L = [1, {"a": 1, "b": None}, [1, None]]


def handles_for(kind):
    """(name, object index, path as [(key|index)], kind of the handle)"""
    if kind == "d":
        return {"root": (0, [], "d"), "other": (1, [], "d"), "child_d": (0, ["n"], "d"), "child_l": (0, ["l"], "l"),
                "other_child_d": (1, ["n"], "d")}
    return {"root": (0, [], "l"), "other": (1, [], "l"), "child_d": (0, [1], "d"), "child_l": (0, [2], "l")}


def path_steps(path):
    return [{"k": p, "i": -1} if isinstance(p, str) else {"k": "", "i": p} for p in path]


# ------------------------------------------------------------------ one execution
def execute(prog, choose, line_level=False):
    L = sched.install()
    env.reset_class_state()
    spec = env.spec_by_name(prog["cls"])
    res = env.JSONFile(spec)
    res2 = env.JSONFile(spec) if prog.get("two_files") else None
    out = {"history": [], "deadlock": None, "leaks": [], "errors": []}
    try:
        init = copy.deepcopy(INIT_D if spec.kind == "d" else INIT_L)
        if prog.get("model_init"):
            init = {"a": 1}
            res.write_raw(copy.deepcopy(init))
        elif prog.get("missing"):
            init = {} if spec.kind == "d" else []
        else:
            res.write_raw(copy.deepcopy(init))
        if res2:
            res2.write_raw(copy.deepcopy(init))
        if prog.get("corrupt"):
            with open(res.path, "wb") as f:
                f.write(b"{ not json")
        objs = [res.new_object(), res.new_object()]
        if res2:
            objs[1] = res2.new_object()
        hdl = {}
        hs = handles_for(spec.kind)
        for tname, ops in prog["threads"].items():
            for (h, _o) in ops:
                if h not in hdl:
                    oi, path, _k = hs[h]
                    o = objs[oi]
                    if not prog.get("corrupt"):
                        for p in path:
                            o = o[p]
                    hdl[h] = o
        ctx = None
        if prog.get("buffered") is not None:
            cap = prog["buffered"].get("cap")
            if cap == "mid":
                # room for ONE file's document (also after a small growth) but not for two
                cap = 1 if spec.strategy == "memory" else int(1.6 * len(json.dumps(init)))
            ctx = spec.cls.buffer_backend(cap)
            ctx.__enter__()
        history = out["history"]

        def mk(tname, ops):
            def body():
                for (h, o) in ops:
                    oi, path, k = hs[h]
                    history.append({"e": "call", "t": tname, "p": path_steps(path), "op": o, "hk": k,
                                    "file": 1 if (res2 and oi == 1) else 0})
                    if o["op"] == "__filename__":
                        # re-point the collection at another (fresh) file
                        try:
                            hdl[h].filename = res.path + ".moved"
                            obs = ("ret", None)
                        except Exception as e:  # noqa: BLE001
                            obs = ("err", e)
                    elif o.get("given"):
                        # the argument is the collection the OTHER thread works on (read inside this write)
                        o2 = {k_: v_ for k_, v_ in o.items() if k_ != "given"}
                        obs = realize.perform(hdl[h], o2, 0, args={("given", "x"): hdl[o["given"]]})
                    else:
                        obs = realize.perform(hdl[h], o, 0)
                    history.append({"e": "ret", "t": tname, "ret": _enc(obs), "file": 1 if (res2 and oi == 1) else 0})
                    if prog.get("sabotage") and tname == "t1":
                        pass
            return body
        s = sched.Scheduler(choose, line_level=line_level, coarse=bool(prog.get("coarse")))
        for tname, ops in prog["threads"].items():
            s.spawn(tname, mk(tname, ops))
        if prog.get("break_dir") :
            pass
        s.run()
        out["schedule"] = [(a, b) for (a, b, c, d) in s.trace]
        out["trace"] = s.trace[:200]
        if s.deadlock:
            out["deadlock"] = s.deadlock
        if s.aborted == "step limit":
            out["errors"].append("step limit reached")
        for t in s.threads:
            if isinstance(t.result, tuple) and t.result and t.result[0] == "thread-error":
                out["errors"].append(f"thread {t.name} crashed in the harness: {t.result[1]!r}")
        if not s.deadlock:
            if ctx is not None:
                try:
                    ctx.__exit__(None, None, None)
                except Exception as e:  # noqa: BLE001
                    out["exit_error"] = f"{type(e).__name__}: {e}"
                out["size_after"] = spec.cls.get_current_buffer_size()
            # every lock must be free again
            for lk in sched.all_locks(L):
                if not lk.free():
                    out["leaks"].append(repr(lk))
            raw = res.read_raw()
            out["final"] = [_raw_doc(raw, spec)]
            if res2:
                out["final"].append(_raw_doc(res2.read_raw(), spec))
        out["init"] = val.from_py(init)
        return out
    finally:
        # release whatever a leaked lock still holds so that later executions start clean
        for lk in sched.all_locks(L):
            lk.owner, lk.count = None, 0
        env.reset_class_state()
        res.dispose()
        if res2:
            res2.dispose()


def _raw_doc(raw, spec):
    if isinstance(raw, env.Corrupt):
        return {"t": "corrupt"}
    if raw is env.MISSING:
        return val.from_py({} if spec.kind == "d" else [])
    return val.from_py(raw)


def _enc(obs):
    kind, got = obs
    if kind == "err":
        return {"t": "!", "e": realize.err_class(got), "msg": str(got)[:120]}
    if isinstance(got, tuple) and got and got[0] == "keys":
        return {"t": "keys", "ks": [val.key_from_py(k) for k in got[1]]}
    if isinstance(got, tuple) and got and got[0] == "items":
        g = realize.to_plain(got[1])
        return {"t": "items", "m": val.from_py({p[0]: p[1] for p in g})["m"]}
    if isinstance(got, tuple) and got and got[0] == "self":
        return {"t": "self"} if got[1] else {"t": "notself"}
    # A returned child collection is converted WITHOUT going through the library (a no-load walk of
    # its in-memory data, atomic with respect to the scheduler): converting it with child() would be
    # a read operation of this thread racing with the other threads, which is C14's subject.
    return val.from_py(_noload(got))


def _noload(x):
    d = getattr(x, "_data", x) if hasattr(x, "_to_base") else x
    if isinstance(d, dict):
        return {k: _noload(v) for k, v in d.items()}
    if isinstance(d, (list, tuple)):
        return [_noload(v) for v in d]
    return d


# ------------------------------------------------------------------ exploration of one program
def explore_program(args):
    prog, bound, max_runs, line_level = args
    max_runs = max(max_runs, prog.get("max_runs", 0))
    outs = []
    seen = set()

    def run_once(choose):
        return execute(prog, choose, line_level)
    ex = sched.Explorer(run_once, bound=bound, max_runs=max_runs, by_preemptions=bool(prog.get("coarse")), seed=common.seed(),
                        extra_random=0 if prog.get("coarse") else max(20, max_runs // 2))
    n = 0

    def keep(res, choices):
        key = json.dumps([res["history"], res.get("final"), res["deadlock"], res["leaks"], res.get("exit_error"),
                          res.get("size_after")], sort_keys=True, default=repr)
        if key in seen:
            return
        seen.add(key)
        res["choices"] = choices
        outs.append(res)
    # lock-directed schedules (independent of the budgeted search): for every thread and every k, run that thread until
    # it is about to request its k-th lock that it does not hold yet, then let the other threads run as far as they
    # can, then resume it.  Every lock-order inversion between two threads (t1: A then B, t2: B then A) deadlocks in
    # one of these schedules.
    if not line_level:
        for first in prog["threads"]:
            for k in range(0, 12):
                st = {"n": 0, "switched": False, "log": []}

                def choose(runnable, current, trace, first=first, k=k, st=st):
                    f = next((t for t in runnable if t.name == first), None)
                    others = [t for t in runnable if t.name != first]
                    pick = None
                    if not st["switched"] and f is not None:
                        kind, det = f.point
                        if kind == "acquire" and isinstance(det, sched.SchedRLock) and det.owner is not f:
                            if st["n"] == k and others:
                                st["switched"] = True
                                pick = others[0]
                            else:
                                st["n"] += 1
                        pick = pick or f
                    else:
                        pick = others[0] if others else f
                    st["log"].append(pick.name)
                    return pick
                res = run_once(choose)
                n += 1
                keep(res, list(st["log"]))
                if not st["switched"]:
                    break       # the thread has fewer than k+1 such requests
    for res, choices in ex.explore():
        n += 1
        keep(res, choices)
    return {"prog": prog, "runs": n, "distinct": outs}


def to_traces(res, nfiles):
    """History -> one Lin trace per file."""
    traces = []
    for f in range(nfiles):
        ev = [{k: v for k, v in e.items() if k not in ("file",)} for e in res["history"] if e.get("file", 0) == f]
        for e in ev:
            if e["e"] == "ret" and "msg" in e["ret"]:
                e["ret"] = {k: v for k, v in e["ret"].items() if k != "msg"}
        ev.append({"e": "final", "doc": res["final"][f]})
        traces.append({"init": res["init"], "ev": ev})
    return traces


def validate(run, traces, fam="json", tag="lin"):
    if not traces:
        return []
    path = os.path.join(tlc.scratch(), f"lin-{tag}-{len(traces)}.json")
    with open(path, "w") as f:
        json.dump(traces, f)
    cfg = tlc.cfg_text(init="TInit", next_="TNext", constants={"Fam": f'"{fam}"'}, invariants=["Report"])
    res = tlc.run("Lin", cfg, env={"TRACE_FILE": path}, name=f"lin-{tag}", timeout=1800)
    if res.errors or res.rc != 0:
        run.machinery_error(f"TLC Lin: {res.errors[:2]} {res.tail(12)}")
        return None
    run.add_tlc(res, f"Lin.tla validation of {len(traces)} recorded concurrent histories")
    best = [0] * len(traces)
    rx = re.compile(r'^<<"AT", (\d+), (\d+)>>')
    for line in open(res.out_path):
        m = rx.match(line)
        if m:
            t, l = int(m.group(1)) - 1, int(m.group(2))
            best[t] = max(best[t], l)
    return best


def judge(run, prop, results, claimed):
    """results: list of explore_program outputs. claimed: subset of {"lin","deadlock","leak","exit","size","error"}"""
    traces, owners = [], []
    for r in results:
        prog = r["prog"]
        nfiles = 2 if prog.get("two_files") else 1
        run.cov["evaluations"] += r["runs"]
        run.cov["schedules_executed"] = run.cov.get("schedules_executed", 0) + r["runs"]
        if "lin" not in claimed:
            # every executed schedule is one behaviour of the implementation checked for deadlock / leaked locks
            run.cov["traces_validated_against_impl"] += r["runs"]
        for res in r["distinct"]:
            run._distinct.add(json.dumps([prog["name"], res["history"], res.get("final")], sort_keys=True, default=repr))
            # exception classes that no sequential execution of these operations produces (KeyError & co. are results)
            odd = sorted({h["ret"].get("e", "?") for h in res["history"] if h["e"] == "ret" and isinstance(h.get("ret"), dict)
                          and h["ret"].get("t") == "!" and h["ret"].get("e") not in ("KeyError", "IndexError", "ValueError", "TypeError")})
            base = {"program": prog, "op": prog["name"], "cls": prog["cls"], "schedule": res.get("schedule", [])[:120],
                    "choices": res.get("choices"), "history": res["history"], "raised": ",".join(odd)}
            if res["errors"]:
                run.machinery_error(f"{prog['name']}: {res['errors']}")
                continue
            if res["deadlock"]:
                if "deadlock" in claimed:
                    run.violation({**base, "aspect": "deadlock", "detail": f"deadlock: {res['deadlock']}"})
                continue
            if res["leaks"] and "leak" in claimed:
                run.violation({**base, "aspect": "leak", "detail": f"locks still held after all threads finished: {res['leaks']}"})
            if res.get("exit_error") and "exit" in claimed:
                run.violation({**base, "aspect": "exit", "detail": f"leaving the buffered context raised {res['exit_error']}"})
            if res.get("size_after") not in (None, 0) and "size" in claimed:
                run.violation({**base, "aspect": "size", "detail": f"buffer size {res['size_after']} after the context exited"})
            if "lin" in claimed and not prog.get("corrupt"):
                for t in to_traces(res, nfiles):
                    traces.append(t)
                    owners.append(base)
    if traces:
        best = validate(run, traces, tag=prop)
        if best is not None:
            run.cov["traces_validated_against_impl"] += len(traces)
            for t, b, base in zip(traces, best, owners):
                if b < len(t["ev"]) + 1:
                    ev = t["ev"][b - 1] if 0 < b <= len(t["ev"]) else None
                    stuck = "?"
                    if ev is not None:
                        if ev["e"] == "ret":
                            calls = [e for e in t["ev"][:b] if e["e"] == "call" and e["t"] == ev["t"]]
                            is_read = bool(calls) and calls[-1]["op"]["op"] in realize_reads()
                            stuck = "ret-read" if is_read else "ret-write"
                        else:
                            stuck = ev["e"]
                    run.violation({**base, "aspect": "lin", "event_index": b, "event": ev, "stuck": stuck,
                                   "final": t["ev"][-1]["doc"],
                                   "detail": f"history is not linearizable: stuck at event {b} = {json.dumps(ev)[:200]}"})


def realize_reads():
    from . import seq
    return seq.realize_read_ops()


def pairs(menu_a, menu_b):
    return [(a, b) for a in menu_a for b in menu_b]


def programs_C09(tier, rnd):
    progs = []
    for cls, kind in (("JSONDict", "d"), ("JSONList", "l"), ("BufferedJSONDict", "d"), ("MemoryBufferedJSONList", "l"),
                      ("JSONAttrDict", "d")):
        mut = MUT_D if kind == "d" else MUT_L
        ps = pairs(mut, mut)
        if tier == "quick" and not (cls in ("JSONDict", "JSONList")):
            ps = rnd.sample(ps, 12)
        for (a, b) in ps:
            for (h1, h2) in (("root", "root"), ("root", "other")):
                progs.append({"name": f"{cls}:{h1}.{a['op']}||{h2}.{b['op']}", "cls": cls,
                              "threads": {"t1": [(h1, a)], "t2": [(h2, b)]}})
        for (a, b) in rnd.sample(ps, min(len(ps), 6 if tier == "quick" else 40)):
            progs.append({"name": f"{cls}[missing file]:root.{a['op']}||other.{b['op']}", "cls": cls, "missing": True,
                          "threads": {"t1": [("root", a)], "t2": [("other", b)]}})
        # nested-child handles obtained before the threads start
        ch_d = MUT_D
        ch_l = MUT_L
        # the partner must not move or destroy the position the child handle came from
        safe = [m for m in mut if m["op"] in (("setitem", "delitem", "update", "setdefault", "pop") if kind == "d"
                                              else ("append", "extend", "iadd", "setitem"))]
        cps = pairs(ch_d, safe) if kind == "d" else pairs(ch_l, safe)
        cps = rnd.sample(cps, 8 if tier == "quick" else len(cps))
        for (a, b) in cps:
            h1 = "child_d" if kind == "d" else "child_l"
            progs.append({"name": f"{cls}:{h1}.{a['op']}||other.{b['op']}", "cls": cls,
                          "threads": {"t1": [(h1, a)], "t2": [("other", b)]}})
    if tier == "thorough":
        # three threads, two operations per thread
        for cls, kind in (("JSONDict", "d"), ("JSONList", "l")):
            mut = MUT_D if kind == "d" else MUT_L
            for _ in range(40):
                a, b, c, d = (rnd.choice(mut) for _ in range(4))
                progs.append({"name": f"{cls}:3threads", "cls": cls,
                              "threads": {"t1": [("root", a), ("root", b)], "t2": [("other", c)], "t3": [("root", d)]}})
    return progs


def run_programs(run, progs, bound, max_runs, line_level=False):
    jobs = [(p, bound, max_runs, line_level) for p in progs]
    return common.pmap(explore_program, jobs)


KNOWN_NOTE = ("schedules = every interleaving of the threads at the library's synchronisation points (lock acquire/"
              "release, suspend-counter enter/exit, load from / save to the resource, buffer load/save/flush) with at "
              "most {b} preemptions, executed deterministically on the real classes; thorough additionally preempts "
              "between executed lines")


def check_C09(tier):
    run = common.Run("C09", tier)
    rnd = random.Random(common.seed())
    b = 2
    run.cov["rule"] = ("programs = pairs (thorough: triples) of threads each issuing mutators from the full menu "
                       "(setitem delitem update setdefault pop clear reset append extend insert remove reverse += ...) "
                       "through the same object, two objects on one file, or a nested-child handle obtained before the "
                       "threads start; " + KNOWN_NOTE.format(b=b) + "; each distinct recorded history (calls, returns "
                       "with results, final file content) is validated by TLC against Lin.tla")
    run.assumptions += ["JSON backend (the only one that supports threading)", "preemption bound 2 at primitive "
                        "granularity (quick); line-level preemption in the thorough tier",
                        "Lin.tla uses the sequential semantics of PyOps.tla"]
    progs = programs_C09(tier, rnd)
    results = run_programs(run, progs, b, 60 if tier == "quick" else 400, line_level=False)
    judge(run, "C09", results, ("lin", "deadlock"))
    mres = threads_model(run, "C09", ["C09_WritersLinearizable"], tier)
    judge(run, "C09", [r for r in mres if all(o[1]["op"] != "contains" for ops in r["prog"]["threads"].values() for o in ops)],
          ("lin", "deadlock"))
    if tier == "thorough":
        lp = rnd.sample(progs, min(60, len(progs)))
        results = run_programs(run, lp, 1, 150, line_level=True)
        judge(run, "C09", results, ("lin", "deadlock"))
    run.cov["programs"] = len(progs)
    for r0 in results[:4]:
        if r0["distinct"]:
            run.sample({"program": r0["prog"]["name"], "schedule": r0["distinct"][-1].get("schedule", [])[:40],
                        "history": r0["distinct"][-1]["history"], "final": r0["distinct"][-1].get("final")})
    return run.finish()


def check_C14(tier):
    run = common.Run("C14", tier)
    rnd = random.Random(common.seed())
    run.cov["rule"] = ("programs = one reader thread (getitem/get/len/iter/()/==/membership, also through a nested "
                       "child handle) next to one writer thread (thorough: 2 writers) on one object or on two objects "
                       "bound to one file, unbuffered and inside buffer_backend() of both strategies; "
                       + KNOWN_NOTE.format(b=2) + "; histories validated by TLC against Lin.tla (a read must return a "
                       "value the collection had between its call and its return; no lost write; no exception)")
    run.assumptions += ["JSON backend", "preemption bound 2 at primitive granularity; a sample of reader || whole-container "
                        "writer programs with one preemption between any two executed lines of library code"]
    progs = []
    for cls, kind, buffered in (("JSONDict", "d", None), ("JSONList", "l", None), ("BufferedJSONDict", "d", {"cap": None}),
                                ("MemoryBufferedJSONDict", "d", {"cap": None}), ("MemoryBufferedJSONList", "l", {"cap": None})):
        reads = READ_D if kind == "d" else READ_L
        mut = MUT_D if kind == "d" else MUT_L
        ps = pairs(reads, mut)
        if tier == "quick":
            ps = rnd.sample(ps, 30 if buffered is None else 24)
        for (r, w) in rnd.sample(ps, min(len(ps), 8)):
            if buffered is None:
                progs.append({"name": f"{cls}[missing file]:other.{r['op']}(read)||root.{w['op']}", "cls": cls,
                              "missing": True, "threads": {"t1": [("other", r)], "t2": [("root", w)]}})
        for (r, w) in ps:
            for (hr, hw) in (("other", "root"), ("root", "root")):
                progs.append({"name": f"{cls}{'[buffered]' if buffered else ''}:{hr}.{r['op']}(read)||{hw}.{w['op']}",
                              "cls": cls, "threads": {"t1": [(hr, r)], "t2": [(hw, w)]}, "buffered": buffered,
                              "same_object": hr == hw})
    results = run_programs(run, progs, 2, 80 if tier == "quick" else 300)
    judge(run, "C14", results, ("lin", "deadlock", "exit"))
    # line-level preemption (between any two executed lines of library code, e.g. inside the walk that builds the
    # result of () or ==): readers next to writers that replace or empty whole containers
    lp = []
    for cls, kind in (("JSONDict", "d"), ("JSONList", "l"), ("MemoryBufferedJSONDict", "d")):
        reads = [r for r in (READ_D if kind == "d" else READ_L) if r["op"] in ("call", "eq", "keys", "iter")]
        muts = [m for m in (MUT_D if kind == "d" else MUT_L) if m["op"] in ("clear", "reset", "update", "extend")]
        for r in reads:
            for w in muts:
                for (hr, hw) in (("root", "root"), ("other", "root")):
                    lp.append({"name": f"{cls}{'[buffered]' if cls.startswith('Memory') else ''}:{hr}.{r['op']}(read)||{hw}.{w['op']}",
                               "cls": cls, "threads": {"t1": [(hr, r)], "t2": [(hw, w)]},
                               "buffered": {"cap": None} if cls.startswith("Memory") else None, "same_object": hr == hw})
    if tier == "quick":
        always = [p for p in lp if p["same_object"] and p["name"].endswith("root.clear")
                  and (".call(" in p["name"] or ".eq(" in p["name"])]
        rest = [p for p in lp if p not in always]
        lp = always + rnd.sample(rest, 8)
    lres = run_programs(run, lp, 1, 120 if tier == "quick" else 400, line_level=True)
    judge(run, "C14", lres, ("lin", "deadlock", "exit"))
    mres = threads_model(run, "C14", ["C14_TwoObjectsLinearizable"], tier)
    for r in mres:     # same-object reader||writer behaviours carry the known-finding signature
        th = r["prog"]["threads"]
        objs = {t: ops[0][0] for t, ops in th.items()}
        kinds = {t: ops[0][1]["op"] for t, ops in th.items()}
        rd = [t for t in kinds if kinds[t] == "contains"]
        wr = [t for t in kinds if kinds[t] != "contains"]
        if rd and wr and any(objs[a] == objs[b] for a in rd for b in wr):
            r["prog"]["name"] = f"model:root.{kinds[rd[0]]}(read)||root.{kinds[wr[0]]}"
        elif len(rd) == 2 and objs[rd[0]] == objs[rd[1]]:
            r["prog"]["name"] = f"model:root.{kinds[rd[0]]}(read)||root.{kinds[rd[1]]}(read)"
    judge(run, "C14", mres, ("lin", "deadlock", "exit"))
    run.cov["programs"] = len(progs)
    for r in results[:4]:
        if r["distinct"]:
            run.sample({"program": r["prog"]["name"], "schedule": r["distinct"][-1].get("schedule", [])[:40],
                        "history": r["distinct"][-1]["history"], "final": r["distinct"][-1].get("final")})
    return run.finish()


def check_C13(tier):
    run = common.Run("C13", tier)
    rnd = random.Random(common.seed())
    run.cov["rule"] = ("programs = two threads issuing buffered mutators (setitem delitem update setdefault append extend "
                       "insert reset clear) inside one backend-wide buffered context with capacity in {None (large), 0, "
                       "1}, on distinct files, the same object, or two objects on one file, plus a reader on a thread-private object of another file next to two consecutive mutators; " + KNOWN_NOTE.format(b=2) +
                       "; no operation may raise, no deadlock, after the exit each file's content must be linearizable "
                       "(TLC, Lin.tla) and the reported buffer size 0")
    run.assumptions += ["JSON backend, both buffering strategies", "preemption bound 2 at primitive granularity"]
    progs = []
    for cls, kind in (("BufferedJSONDict", "d"), ("MemoryBufferedJSONDict", "d"), ("BufferedJSONList", "l"),
                      ("MemoryBufferedJSONList", "l")):
        mut = [m for m in (MUT_D if kind == "d" else MUT_L) if m["op"] not in ("pop", "remove", "reverse", "iadd")]
        ps = pairs(mut, mut)
        if tier == "quick":
            ps = rnd.sample(ps, 12)
        for (a, b) in ps:
            for cap in (None, 0, 1):
                for shape in ("distinct", "same", "two_objs"):
                    p = {"name": f"{cls}[cap={cap},{shape}]:{a['op']}||{b['op']}", "cls": cls,
                         "buffered": {"cap": cap}}
                    if shape == "distinct":
                        p["two_files"] = True
                        p["threads"] = {"t1": [("root", a)], "t2": [("other", b)]}
                    elif shape == "same":
                        p["threads"] = {"t1": [("root", a)], "t2": [("root", b)]}
                    else:
                        p["threads"] = {"t1": [("root", a)], "t2": [("other", b)]}
                    progs.append(p)
    if tier == "quick":
        progs = rnd.sample(progs, min(len(progs), 300))
    # nested-child handles (a list / dict inside a buffered dict) against a second object on the same file
    for cls in ("BufferedJSONDict", "MemoryBufferedJSONDict"):
        safe = [m for m in MUT_D if m["op"] in ("setitem", "delitem", "update", "setdefault")]
        chl = [m for m in MUT_L if m["op"] in ("append", "extend", "insert", "setitem", "clear", "reset")]
        chd = [m for m in MUT_D if m["op"] in ("setitem", "delitem", "update", "clear", "reset")]
        cps = [("child_l", a, b) for a in chl for b in safe] + [("child_d", a, b) for a in chd for b in safe]
        for (h, a, b) in (rnd.sample(cps, 16) if tier == "quick" else cps):
            for cap in (None, 0):
                progs.append({"name": f"{cls}[cap={cap},child]:{h}.{a['op']}||other.{b['op']}", "cls": cls,
                              "buffered": {"cap": cap}, "threads": {"t1": [(h, a)], "t2": [("other", b)]}})
    # a reader on a thread-private object bound to ANOTHER file: with a small capacity its read brings that file into
    # the buffer and forces a flush of the first file while the other thread is between two mutators of it
    for cls, kind in (("BufferedJSONDict", "d"), ("MemoryBufferedJSONDict", "d"), ("BufferedJSONList", "l")):
        mut = [m for m in (MUT_D if kind == "d" else MUT_L) if m["op"] in ("setitem", "update", "setdefault", "append", "extend", "insert")]
        reads = READ_D if kind == "d" else READ_L
        combos = [(r, a, b) for r in reads for a in mut for b in mut]
        for (r, a, b) in rnd.sample(combos, min(len(combos), 10 if tier == "quick" else 80)):
            for cap in (0, "mid"):
                progs.append({"name": f"{cls}[cap={cap},private-reader]:other.{r['op']}(read)||root.{a['op']};root.{b['op']}",
                              "cls": cls, "buffered": {"cap": cap}, "two_files": True, "coarse": True, "max_runs": 400,
                              "threads": {"t1": [("other", r)], "t2": [("root", a), ("root", b)]}})
    results = run_programs(run, progs, 2, 60 if tier == "quick" else 300)
    judge(run, "C13", results, ("lin", "deadlock", "exit", "size", "leak"))
    mres = threads_model(run, "C13", ["C09_WritersLinearizable"], tier, buffered_modes=(True,))
    judge(run, "C13", [r for r in mres if all(o[1]["op"] != "contains" for ops in r["prog"]["threads"].values() for o in ops)],
          ("lin", "deadlock", "exit", "size", "leak"))
    run.cov["programs"] = len(progs)
    for r in results[:4]:
        if r["distinct"]:
            run.sample({"program": r["prog"]["name"], "schedule": r["distinct"][-1].get("schedule", [])[:40],
                        "history": r["distinct"][-1]["history"], "final": r["distinct"][-1].get("final")})
    return run.finish()


def check_C10(tier):
    run = common.Run("C10", tier)
    rnd = random.Random(common.seed())
    run.cov["rule"] = ("(a) fault programs: thread 1 performs an operation that raises (unparsable file, rejected "
                       "value, missing key) while thread 2 operates on the same and on another collection; (b) lock-order "
                       "programs: {clear, reset} || {setitem, ...} unbuffered and inside buffer_backend() of both "
                       "strategies; (c) all C09-style pairs; " + KNOWN_NOTE.format(b=2) + "; a schedule in which no "
                       "thread is runnable while some are unfinished is a deadlock; after all threads finished every "
                       "lock (collection, class, buffer) must be free; (d) filename re-pointing with a second object "
                       "bound to the old file; (e) cross-collection programs a.update(b) || b.update(a) on two files (their lock "
                       "skeleton is model-checked in CrossLock.tla)")
    run.assumptions += ["JSON backend", "I/O faults are injected as an unparsable file (load) - save-time faults are "
                        "covered by the sequential check below"]
    progs = []
    for cls, kind in (("JSONDict", "d"), ("BufferedJSONDict", "d"), ("MemoryBufferedJSONDict", "d"), ("JSONList", "l")):
        mut = MUT_D if kind == "d" else MUT_L
        # (a) load fault in t1, any operation in t2 on the same file / another file
        for b in rnd.sample(mut, 3 if tier == "quick" else len(mut)):
            progs.append({"name": f"{cls}:corrupt-file root.{mut[0]['op']}||other.{b['op']}", "cls": cls, "corrupt": True,
                          "threads": {"t1": [("root", mut[0])], "t2": [("other", b)]}})
            progs.append({"name": f"{cls}:corrupt-file root.{mut[0]['op']}||otherfile.{b['op']}", "cls": cls, "corrupt": True,
                          "two_files": True, "threads": {"t1": [("root", mut[0])], "t2": [("other", b)]}})
        # rejected value / missing key: raising operations
        bad = {"op": "setitem", "k": "a", "x": {"t": "x"}} if kind == "d" else {"op": "append", "x": {"t": "x"}}
        miss = {"op": "delitem", "k": "zz"} if kind == "d" else {"op": "delitem", "i": 9}
        for a in (bad, miss):
            for b in rnd.sample(mut, 2):
                progs.append({"name": f"{cls}:raising root.{a['op']}||other.{b['op']}", "cls": cls,
                              "threads": {"t1": [("root", a), ("root", b)], "t2": [("other", b)]}})
        # (b) lock order: clear/reset against ordinary mutators, buffered and not
        destr = [m for m in mut if m["op"] in ("clear", "reset")]
        for a in destr:
            for b in rnd.sample(mut, 3 if tier == "quick" else len(mut)):
                for buffered in ((None, {"cap": None}, {"cap": 0}) if "Buffered" in cls else (None,)):
                    for (h1, h2) in (("root", "root"), ("root", "other")):
                        progs.append({"name": f"{cls}[buf={buffered}]:{h1}.{a['op']}||{h2}.{b['op']}", "cls": cls,
                                      "buffered": buffered, "threads": {"t1": [(h1, a)], "t2": [(h2, b)]}})
    # (e) cross-collection programs: each thread writes ITS collection (own file) with the other thread's collection
    # as the argument - a read of b inside a write of a and vice versa
    for cls, kind in (("JSONDict", "d"), ("BufferedJSONDict", "d"), ("MemoryBufferedJSONDict", "d"), ("JSONList", "l")):
        ops = ([{"op": "update", "x": {"t": "d", "m": []}}, {"op": "setitem", "k": "c", "x": {"t": "d", "m": []}},
                {"op": "reset", "x": {"t": "d", "m": []}}] if kind == "d"
               else [{"op": "extend", "x": {"t": "l", "s": []}}, {"op": "append", "x": {"t": "l", "s": []}},
                     {"op": "reset", "x": {"t": "l", "s": []}}])
        for a in ops:
            for b in ops[:2]:
                for buffered in ((None, {"cap": None}) if "Buffered" in cls else (None,)):
                    progs.append({"name": f"{cls}[buf={buffered}]:root.{a['op']}(other)||other.{b['op']}(root)", "cls": cls,
                                  "two_files": True, "buffered": buffered,
                                  "threads": {"t1": [("root", dict(a, given="other"))], "t2": [("other", dict(b, given="root"))]}})
    # (d) re-pointing a collection at another file while other threads write (class lock x collection lock)
    for cls, kind in (("JSONDict", "d"), ("BufferedJSONDict", "d"), ("JSONList", "l")):
        mut = MUT_D if kind == "d" else MUT_L
        for b in mut:
            for (h1, h2) in (("root", "root"), ("root", "other")):
                progs.append({"name": f"{cls}:{h1}.set_filename||{h2}.{b['op']}", "cls": cls,
                              "threads": {"t1": [(h1, {"op": "__filename__"})], "t2": [(h2, b), (h2, b)]}})
    results = run_programs(run, progs, 2, 60 if tier == "quick" else 300)
    judge(run, "C10", results, ("deadlock", "leak"))
    mres = threads_model(run, "C10", [], tier)
    judge(run, "C10", mres, ("deadlock", "leak"))
    run.cov["programs"] = len(progs)
    sequential_lock_checks(run)
    cross_lock_model(run)
    for r in results[:4]:
        if r["distinct"]:
            run.sample({"program": r["prog"]["name"], "schedule": r["distinct"][-1].get("schedule", [])[:40],
                        "deadlock": r["distinct"][-1].get("deadlock"), "leaks": r["distinct"][-1].get("leaks")})
    return run.finish()


def cross_lock_model(run):
    """CrossLock.tla: the lock skeleton of a write of one collection that reads another (programs (e) above are its
    executions on the real classes).  Intended design: deadlock-free buffered and unbuffered; with the deviation of the
    code before fix 985c89e (the read's merge takes the read collection's lock) the unbuffered instance must deadlock
    (witness) and the buffered one must not (the buffer lock is a gate)."""
    for dev, buffered, want_deadlock in (("FALSE", "FALSE", False), ("FALSE", "TRUE", False), ("TRUE", "FALSE", True), ("TRUE", "TRUE", False)):
        cfg = tlc.cfg_text(spec="Spec", constants={"Dev_MergeLocks": dev, "Buffered": buffered},
                           invariants=["C10_NoLockLeak", "LockSanity"], check_deadlock=True)
        res = tlc.run("CrossLock", cfg, name=f"crosslock-{dev}-{buffered}", timeout=300)
        got = bool(res.deadlock)
        if res.errors and not got or res.violated:
            run.machinery_error(f"TLC CrossLock dev={dev} buffered={buffered}: {res.violated} {res.errors[:2]} {res.tail(6)}")
            continue
        if got != want_deadlock:
            run.machinery_error(f"CrossLock.tla dev={dev} buffered={buffered}: deadlock={got}, expected {want_deadlock}")
        run.add_tlc(res, f"CrossLock.tla Dev_MergeLocks={dev} Buffered={buffered} (deadlock={got})")
        if dev == "TRUE":
            run.cov.setdefault("deviation_witnesses", {})[f"Dev_MergeLocks/buffered={buffered}"] = "deadlock" if got else "none"


def sequential_lock_checks(run):
    """Faults at save time and filename re-pointing, then a probe from another thread."""
    import threading
    L = sched.install()
    for cls_name in ("JSONDict", "BufferedJSONDict", "MemoryBufferedJSONDict", "JSONAttrDict", "JSONList"):
        spec = env.spec_by_name(cls_name)
        # --- save fault: the directory disappears
        env.reset_class_state()
        import tempfile, shutil
        d = tempfile.mkdtemp(dir=env.scratch_dir())
        p = os.path.join(d, "x.json")
        o = spec.cls(p)
        o2 = spec.cls(p)
        shutil.rmtree(d)
        try:
            if spec.kind == "d":
                o["a"] = 1
            else:
                o.append(1)
            raised = False
        except OSError:
            raised = True
        run.case(("savefault", cls_name))
        held = [repr(lk) for lk in sched.all_locks(L) if not lk.free()]
        if held:
            run.violation({"op": "save-fault", "cls": cls_name, "aspect": "leak",
                           "detail": f"after a save that raised (directory removed, raised={raised}) locks are still held: {held}"})
        for lk in sched.all_locks(L):
            lk.owner, lk.count = None, 0
        # --- a public call that has RETURNED holds no lock, also when what it returned is a live iterator / view
        env.reset_class_state()
        r0 = env.JSONFile(spec)
        try:
            r0.write_raw({"a": [1, 2, 3], "b": {"x": 1, "y": 2}, "c": 3} if spec.kind == "d" else [[1, 2, 3], {"x": 1, "y": 2}, 3])
            o = r0.new_object()
            nested_l = o["a"] if spec.kind == "d" else o[0]
            nested_d = o["b"] if spec.kind == "d" else o[1]
            keep = []
            probes = [("iter(root)+next", lambda: keep.append(iter(o)) or next(keep[-1])),
                      ("iter(nested list)+next", lambda: keep.append(iter(nested_l)) or next(keep[-1])),
                      ("iter(nested dict)+next", lambda: keep.append(iter(nested_d)) or next(keep[-1])),
                      ("reversed(nested list)+next", lambda: keep.append(reversed(nested_l)) or next(keep[-1])),
                      ("items() view+next", lambda: keep.append(iter(nested_d.items())) or next(keep[-1])),
                      ("values() view+next", lambda: keep.append(iter(nested_d.values())) or next(keep[-1])),
                      ("keys() view+next", lambda: keep.append(iter(nested_d.keys())) or next(keep[-1]))]
            for pname, fn in probes:
                try:
                    fn()
                except Exception:  # noqa: BLE001 - only lock state matters here
                    pass
                run.case(("partial-iteration", cls_name, pname))
                held = [repr(lk) for lk in sched.all_locks(L) if not lk.free()]
                if held:
                    run.violation({"op": "partial-iteration", "cls": cls_name, "aspect": "leak",
                                   "detail": f"after {pname} returned (iterator kept alive) locks are still held: {held}"})
                    break
            for lk in sched.all_locks(L):
                lk.owner, lk.count = None, 0
            del keep
        finally:
            r0.dispose()
        # --- filename re-pointing must not break the other object
        env.reset_class_state()
        r1, r2 = env.JSONFile(spec), env.JSONFile(spec)
        a, b = r1.new_object(), r1.new_object()
        try:
            a.filename = r2.path
            try:
                if spec.kind == "d":
                    b["x"] = 1
                    a["y"] = 2
                else:
                    b.append(1)
                    a.append(2)
                ok = r1.read_raw() in ({"x": 1}, [1]) and r2.read_raw() in ({"y": 2}, [2])
                detail = f"files hold {r1.read_raw()!r} / {r2.read_raw()!r}"
            except Exception as e:  # noqa: BLE001
                ok, detail = False, f"operation on the object still bound to the old file raised {type(e).__name__}: {e}"
            run.case(("filename", cls_name))
            if not ok:
                run.violation({"op": "filename-setter", "cls": cls_name, "aspect": "filename", "detail": detail})
        finally:
            r1.dispose()
            r2.dispose()
    env.reset_class_state()


def replay_case(prop, case):
    prog = case["program"]
    want = case.get("choices") or []

    def choose(runnable, current, trace, i=[0]):
        names = [t.name for t in runnable]
        k = i[0]
        i[0] += 1
        if k < len(want) and want[k] in names:
            return runnable[names.index(want[k])]
        return current if current is not None else runnable[0]
    res = execute(prog, choose)
    run = common.Run(prop, "quick")
    judge(run, prop, [{"prog": prog, "runs": 1, "distinct": [res]}], ("lin", "deadlock", "leak", "exit", "size"))
    if run.violations:
        print(f"VIOLATION property={prop} replay={__import__('os').environ.get('VERIF_REPLAY_PATH', '-')} {run.violations[0]['detail'][:600]}")
        return 1
    print("not reproduced on this tree")
    return 0


# ------------------------------------------------------------------ Threads.tla: model check + schedule replay
FLAGS_AS_CODE = {"Dev_ReadersLockFree": "TRUE", "Dev_RootClearUnlocked": "FALSE", "Dev_LeakOnLoadFailure": "FALSE",
                 "Dev_ClearLockOrderInverted": "FALSE"}
STEP_KIND = {"start": "start", "acquireF": "acquire", "acquireB": "acquire", "load": "load", "susp+": "susp+",
             "susp-": "susp-", "save": "save", "releaseF": "release", "releaseB": "release"}


def threads_cfg(buffered, flags, invariants, faults=True):
    c = {"Threads_": '{"t1", "t2"}', "Buffered": "TRUE" if buffered else "FALSE", "WithFaults": "TRUE" if faults else "FALSE"}
    c.update(flags)
    return tlc.cfg_text(constants=c, invariants=invariants, view="tview", check_deadlock=True)


def model_op(op):
    k = op["k"]
    if op["kind"] == "add":
        return {"op": "setitem", "k": k, "x": {"t": "i2"}}
    if op["kind"] == "del":
        return {"op": "pop", "k": k, "y": {"t": "n"}}
    if op["kind"] == "clear":
        return {"op": "clear"}
    return {"op": "contains", "k": k}


def replay_model_schedule(args):
    """Execute one Threads.tla behaviour on the real classes: same program, threads released in the model's order."""
    rec, buffered = args
    L = sched.install()
    prog = {"name": "model:" + "||".join(f"{rec['prog'][t]['o']}.{rec['prog'][t]['kind']}({rec['prog'][t]['k']})" for t in sorted(rec["prog"])),
            "cls": "BufferedJSONDict" if buffered else "JSONDict",
            "threads": {t: [("root" if rec["prog"][t]["o"] == "o1" else "other", model_op(rec["prog"][t]))] for t in sorted(rec["prog"])},
            "buffered": {"cap": None} if buffered else None, "model_init": True}
    steps = [(s[0], s[1]) for s in rec["trace"]]
    stat = {"matched": 0, "modelled": 0, "drift": 0}
    idx = [0]
    cls = getattr(L.json, prog["cls"])

    def lock_kind(lk):
        if isinstance(lk, sched.SchedRLock):
            if lk is cls.__dict__.get("_BUFFER_LOCK") or lk is getattr(cls, "_BUFFER_LOCK", None):
                return "B"
            if lk in cls._locks.values():
                return "F"
        return "other"

    def choose(runnable, current, tr):
        while idx[0] < len(steps):
            t, st = steps[idx[0]]
            kind = STEP_KIND.get(st)
            if kind is None:
                idx[0] += 1
                continue
            th = next((x for x in runnable if x.name == t), None)
            if th is None:
                idx[0] += 1
                stat["drift"] += 1
                stat["modelled"] += 1
                continue
            pk = th.point[0]
            same = pk == kind
            if same and kind == "acquire":
                same = lock_kind(th.point[1]) == ("F" if st == "acquireF" else "B")
            if same:
                idx[0] += 1
                stat["matched"] += 1
                stat["modelled"] += 1
            return th
        return current if current is not None else runnable[0]
    res = execute(prog, choose)
    res["stat"] = stat
    res["model"] = {"res": sorted(rec["res"]) if isinstance(rec["res"], list) else rec["res"], "rets": rec["rets"]}
    res["prog"] = prog
    return res


def threads_model(run, prop, invariants, tier, buffered_modes=(False, True)):
    """Model-check Threads.tla with the flags that describe the current code; replay terminal behaviours."""
    rnd = random.Random(common.seed())
    replayed = []
    for buffered in buffered_modes:
        cfg = threads_cfg(buffered, FLAGS_AS_CODE, ["C10_NoLockLeak", "ExportDone"] + invariants)
        res = tlc.run("Threads", cfg, name=f"threads-{prop}-{int(buffered)}", timeout=900, coverage=True)
        if not res.ok:
            run.machinery_error(f"TLC Threads (flags as code, buffered={buffered}): violated={res.violated} deadlock={res.deadlock} "
                                f"{res.errors[:2]} {res.tail(8)}")
            continue
        run.add_tlc(res, f"Threads.tla flags=as-code buffered={buffered} invariants={invariants}")
        recs = [val.norm(r) for r in res.records("SCHED")]
        recs = [r for r in recs if all(s_[1] != "loadfails" for s_ in r["trace"])]    # faults are not injected in the replay
        for r in rnd.sample(recs, min(len(recs), 150 if tier == "quick" else 2000)):
            replayed.append((r, buffered))
    # every deviation flag must have a witness (otherwise the model is vacuous)
    for flag, inv, expect in (("Dev_RootClearUnlocked", "C09_WritersLinearizable", "inv"),
                              ("Dev_LeakOnLoadFailure", "C10_NoLockLeak", "deadlock-or-inv"),
                              ("Dev_ClearLockOrderInverted", "C09_WritersLinearizable", "deadlock")):
        flags = dict(FLAGS_AS_CODE)
        flags[flag] = "TRUE"
        r2 = tlc.run("Threads", threads_cfg(flag == "Dev_ClearLockOrderInverted", flags, ["C10_NoLockLeak", inv]),
                     name=f"threads-dev-{flag}", timeout=600)
        hit = r2.deadlock or r2.violated
        if not hit:
            run.machinery_error(f"deviation flag {flag} has no witness in Threads.tla (vacuous flag)")
        run.cov.setdefault("deviation_witnesses", {})[flag] = "deadlock" if r2.deadlock else str(r2.violated)
    # intended design (readers take the lock): everything must hold
    flags = dict(FLAGS_AS_CODE)
    flags["Dev_ReadersLockFree"] = "FALSE"
    r3 = tlc.run("Threads", threads_cfg(False, flags, ["C10_NoLockLeak", "C14_ReadersLinearizable"]), name="threads-intended",
                 timeout=600)
    if not r3.ok:
        run.machinery_error(f"intended design of Threads.tla violates the properties: {r3.violated} {r3.deadlock}")
    run.add_tlc(r3, "Threads.tla intended design (readers locked): all properties")
    outs = common.pmap(replay_model_schedule, replayed)
    matched = modelled = agree = 0
    results = []
    for o in outs:
        matched += o["stat"]["matched"]
        modelled += o["stat"]["modelled"]
        results.append({"prog": o["prog"], "runs": 1, "distinct": [o]})
        if o.get("final") and not o["deadlock"]:
            real_keys = sorted(val.to_py(o["final"][0]).keys()) if o["final"][0]["t"] == "d" else None
            if real_keys == sorted(o["model"]["res"]):
                agree += 1
    run.cov["model_schedules_replayed"] = len(outs)
    run.cov["model_steps_matched"] = f"{matched}/{modelled}"
    run.cov["model_outcome_agreement"] = f"{agree}/{len(outs)}"
    if outs and agree < len(outs):
        run.notes.append(f"MODEL-DRIFT: {len(outs) - agree} replayed Threads.tla behaviours ended with a different final "
                         "content than the model predicts (judged by Lin.tla, not by the model)")
    if modelled and matched < 0.8 * modelled:
        run.notes.append("MODEL-DRIFT: fewer than 80% of the modelled synchronisation steps were observed in order")
    return results
