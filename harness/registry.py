"""Check registry: property id -> function(tier) -> exit code."""
import json

from . import chk_contract, chk_pyops

CHECKS = {
    "C03": chk_pyops.check_C03,
    "C01": chk_pyops.check_C01,
    "C04": chk_contract.check_C04,
    "C02": chk_contract.check_C02,
}


def replay(prop, path):
    with open(path) as f:
        rec = json.load(f)
    from . import replay as rp
    return rp.replay_case(prop, rec["case"])
