"""Check registry: property id -> function(tier) -> exit code."""
import json

from . import chk_buf, chk_contract, chk_pyops, chk_save, chk_values

def _thr(name):
    def f(tier):
        from . import chk_threads
        return getattr(chk_threads, name)(tier)
    return f


def _res(tier):
    from . import chk_resolver
    return chk_resolver.check_C19(tier)


def _attr(tier):
    from . import chk_attr
    return chk_attr.check_C18(tier)


CHECKS = {
    "C18": _attr,
    "C19": _res,
    "C09": _thr("check_C09"),
    "C10": _thr("check_C10"),
    "C13": _thr("check_C13"),
    "C14": _thr("check_C14"),
    "C03": chk_pyops.check_C03,
    "C01": chk_pyops.check_C01,
    "C04": chk_contract.check_C04,
    "C02": chk_contract.check_C02,
    "C05": chk_buf.check_C05,
    "C06": chk_buf.check_C06,
    "C07": chk_buf.check_C07,
    "C15": chk_buf.check_C15,
    "C08": chk_save.check_C08,
    "C11": chk_values.check_C11,
    "C12": chk_values.check_C12,
    "C16": chk_values.check_C16,
    "C17": chk_values.check_C17,
}


def replay(prop, path):
    import os
    os.environ["VERIF_REPLAY_PATH"] = os.path.abspath(path)
    with open(path) as f:
        rec = json.load(f)
    from . import replay as rp
    return rp.replay_case(prop, rec["case"])
