"""Check registry: property id -> function(tier) -> exit code."""
import json

from . import chk_pyops

CHECKS = {
    "C03": chk_pyops.check_C03,
    "C01": chk_pyops.check_C01,
}


def replay(prop, path):
    with open(path) as f:
        rec = json.load(f)
    from . import replay as rp
    return rp.replay_case(prop, rec["case"])
