"""C08: crash atomicity of saves.  Save.tla enumerates the crash points; the harness (1) validates the
file-operation sequence of every real save against Save.tla with TLC (an in-place write in atomic
mode is not a behaviour of the spec), and (2) injects a process crash (fork + os._exit) at every
primitive file operation, after every prefix class of the bytes handed to write(), and before every
executed line of library code on the save / flush path, then inspects the files."""
import builtins
import json
import os
import re
import shutil
import sys
import tempfile

from . import common, env, tlc

BLOB = 2   # BlobLen of the model: n = 0 nothing written, 1 a strict prefix, 2 complete


# ------------------------------------------------------------------ scenarios
def _mk(cls_name, write_concern, threading_on, toggle=False):
    def make(path):
        L = env.lib()
        cls = getattr(L.json, cls_name)
        if toggle:
            # the write mode is decided by the configuration in effect WHEN THE SAVE HAPPENS: the object is
            # created while threading support is off (in-place mode), the support is switched on afterwards
            cls.disable_multithreading()
            o = cls(path, write_concern=write_concern)
            cls.enable_multithreading()
            return o
        if not threading_on:
            cls.disable_multithreading()
        return cls(path, write_concern=write_concern)
    return make


OLD = {"k": "old-value-" + "x" * 40, "n": {"a": [1, 2, 3]}, "keep": 1}


def scenarios():
    sc = []
    for cls in ("JSONDict", "JSONAttrDict", "BufferedJSONDict", "MemoryBufferedJSONDict"):
        for (wc, thr) in ((False, True), (True, False), (True, True)):
            sc.append({"name": f"{cls}-setitem-wc{int(wc)}-thr{int(thr)}", "cls": cls, "wc": wc, "thr": thr,
                       "files": 1, "op": "setitem", "atomic": True})
    sc.append({"name": "JSONDict-nested-child-write", "cls": "JSONDict", "wc": False, "thr": True, "files": 1,
               "op": "nested", "atomic": True})
    sc.append({"name": "JSONDict-reset", "cls": "JSONDict", "wc": True, "thr": False, "files": 1, "op": "reset", "atomic": True})
    sc.append({"name": "JSONList-append", "cls": "JSONList", "wc": False, "thr": True, "files": 1, "op": "append", "atomic": True})
    for cls in ("BufferedJSONDict", "MemoryBufferedJSONDict", "BufferedJSONAttrDict"):
        sc.append({"name": f"{cls}-backend-flush-3files", "cls": cls, "wc": False, "thr": True, "files": 3,
                   "op": "flush_backend", "atomic": True})
        sc.append({"name": f"{cls}-object-context-exit", "cls": cls, "wc": True, "thr": False, "files": 1,
                   "op": "flush_object", "atomic": True})
        sc.append({"name": f"{cls}-forced-flush", "cls": cls, "wc": False, "thr": True, "files": 2,
                   "op": "forced_flush", "atomic": True})
    # the very first save of a file that does not exist yet: "previous content" = no file at all
    for cls in ("JSONDict", "BufferedJSONDict", "MemoryBufferedJSONDict"):
        for (wc, thr) in ((False, True), (True, False)):
            sc.append({"name": f"{cls}-first-save-wc{int(wc)}-thr{int(thr)}", "cls": cls, "wc": wc, "thr": thr, "files": 1,
                       "op": "setitem", "atomic": True, "missing": True})
    sc.append({"name": "JSONList-first-append", "cls": "JSONList", "wc": False, "thr": True, "files": 1, "op": "append",
               "atomic": True, "missing": True})
    for cls in ("BufferedJSONDict", "MemoryBufferedJSONDict"):
        sc.append({"name": f"{cls}-backend-flush-3-new-files", "cls": cls, "wc": False, "thr": True, "files": 3,
                   "op": "flush_backend", "atomic": True, "missing": True})
    # threading support re-enabled after the object was created: atomic mode is in effect at the save
    for cls, op, files in (("JSONDict", "setitem", 1), ("JSONList", "append", 1), ("BufferedJSONDict", "flush_backend", 3),
                           ("MemoryBufferedJSONDict", "flush_backend", 3)):
        sc.append({"name": f"{cls}-created-with-threading-off-then-enabled", "cls": cls, "wc": False, "thr": True, "files": files,
                   "op": op, "atomic": True, "toggle": True})
    # in-place mode: only the serialisation-failure clause applies
    sc.append({"name": "JSONDict-inplace", "cls": "JSONDict", "wc": False, "thr": False, "files": 1, "op": "setitem",
               "atomic": False})
    return sc


def run_op(sc, d, unserializable=False):
    """Executed in the forked child: perform the scenario's saving operation on files in directory d."""
    make = _mk(sc["cls"], sc["wc"], sc["thr"], sc.get("toggle", False))
    paths = [os.path.join(d, f"f{i}.json") for i in range(sc["files"])]
    objs = [make(p) for p in paths]
    cls = type(objs[0])
    op = sc["op"]
    # (unserialisable content cannot be stored through the public API - validators - so a
    #  serialisation failure is injected at json.dumps instead)
    if op == "setitem":
        objs[0]["k"] = {"new": ["v" * 30, 2.5, None, True]}
    elif op == "nested":
        child = objs[0]["n"]["a"]
        child.append({"deep": "y" * 25})
    elif op == "reset":
        objs[0].reset({"entirely": "new", "l": list(range(20))})
    elif op == "append":
        objs[0].append({"new": "z" * 30})
    elif op == "flush_backend":
        with cls.buffer_backend():
            for i, o in enumerate(objs):
                o["k"] = f"new-{i}-" + "w" * 20
                if not sc.get("missing"):
                    o["n"]["a"].append(i)
    elif op == "flush_object":
        with objs[0].buffered:
            objs[0]["k"] = "new-" + "q" * 30
            del objs[0]["keep"]
    elif op == "forced_flush":
        with cls.buffer_backend(buffer_capacity=1):
            objs[0]["k"] = "new-" + "r" * 30      # exceeds the capacity: flushed from inside the operation
            objs[1]["k"] = "new-" + "s" * 30      # one operation per file: each file has exactly one new state


def initial_content(sc):
    return [1, 2, {"a": "old" * 10}] if sc["cls"].endswith("List") else OLD


# ------------------------------------------------------------------ instrumentation (child side)
class Injector:
    SAVE_PATH_FUNCS = {"_save_to_resource", "_flush", "_flush_buffer", "_save", "_save_to_buffer", "__exit__",
                       "_encode", "set_buffer_capacity", "default"}

    def __init__(self, d, crash_at, line_mode, repo, fail_dumps=False, tmp_root=None):
        self.fail_dumps = fail_dumps
        self.tmp_root = os.path.abspath(tmp_root) if tmp_root else None
        self.d = os.path.abspath(d)
        self.crash_at = crash_at      # event index at which to crash (None = never)
        self.n = 0
        self.log = []                 # (event name, path class, detail)
        self.line_mode = line_mode
        self.repo = os.path.abspath(repo)

    def event(self, name, path=None, detail=None):
        self.log.append([name, os.path.basename(path) if path else None, detail])
        if self.crash_at is not None and self.n == self.crash_at:
            os._exit(77)
        self.n += 1

    def watched(self, path):
        try:
            p = os.path.abspath(os.fspath(path))
        except TypeError:
            return False
        return p.startswith(self.d + os.sep) or (self.tmp_root is not None and p.startswith(self.tmp_root + os.sep))

    def install(self):
        inj = self
        real_open, real_replace, real_rename = builtins.open, os.replace, os.rename
        import json as _json
        real_dumps = _json.dumps

        class FileProxy:
            def __init__(self, f, path):
                self._f, self._path = f, path

            def write(self, data):
                n = len(data)
                inj.event("write_before", self._path, n)
                for cut in sorted({0, 1, n // 2, n - 1}):
                    if 0 <= cut < n and inj.crash_at is not None and inj.n == inj.crash_at:
                        self._f.write(data[:cut])
                        self._f.flush()
                        os._exit(77)
                    inj.log.append(["write_prefix", os.path.basename(self._path), cut])
                    inj.n += 1
                r = self._f.write(data)      # not flushed: a crash before close() loses buffered bytes, as in reality
                inj.event("write_after", self._path, n)
                return r

            def close(self):
                inj.event("close_before", self._path)
                self._f.close()
                inj.event("close_after", self._path)

            def __enter__(self):
                return self

            def __exit__(self, *a):
                self.close()

            def __getattr__(self, k):
                return getattr(self._f, k)

        def open_(path, mode="r", *a, **kw):
            if isinstance(path, (str, bytes, os.PathLike)) and inj.watched(path) and any(c in mode for c in "wax+"):
                inj.event("open_before", path, mode)
                f = real_open(path, mode, *a, **kw)
                inj.event("open_after", path, mode)
                return FileProxy(f, os.fspath(path))
            return real_open(path, mode, *a, **kw)

        def replace_(src, dst, *a, **kw):
            if inj.watched(dst):
                inj.event("replace_before", dst, os.path.basename(os.fspath(src)))
                real_replace(src, dst, *a, **kw)
                inj.event("replace_after", dst)
            else:
                real_replace(src, dst, *a, **kw)

        def rename_(src, dst, *a, **kw):
            if inj.watched(dst):
                inj.event("replace_before", dst, os.path.basename(os.fspath(src)))
                real_rename(src, dst, *a, **kw)
                inj.event("replace_after", dst)
            else:
                real_rename(src, dst, *a, **kw)

        def dumps_(*a, **kw):
            inj.event("dumps_before")
            if inj.fail_dumps:
                inj.event("dumps_fail")
                raise TypeError("Object of type object is not JSON serializable (injected)")
            try:
                r = real_dumps(*a, **kw)
            except BaseException:
                inj.event("dumps_fail")
                raise
            inj.event("dumps_after")
            return r

        builtins.open = open_
        os.replace = replace_
        os.rename = rename_
        _json.dumps = dumps_
        if self.line_mode:
            prefix = os.path.join(self.repo, "synced_collections") + os.sep

            def tracer(frame, ev, arg):
                fn = frame.f_code.co_filename
                if not fn.startswith(prefix):
                    return None
                if ev == "line" and inj.armed and frame.f_code.co_name in inj.SAVE_PATH_FUNCS:
                    inj.event("line", None, f"{os.path.basename(fn)}:{frame.f_lineno}")
                return tracer
            self.armed = False
            sys.settrace(tracer)


def child_run(sc, d, crash_at, line_mode, unserializable, log_path):
    """Runs in a forked child; never returns."""
    try:
        # the system temp directory of the child is on ANOTHER file system than the data files when one is available
        # (a temp file staged there cannot be renamed over the target atomically) and is watched too
        tmp_root = other_fs_tmp(d)
        if tmp_root:
            tempfile.tempdir = tmp_root
        inj = Injector(d, crash_at, line_mode, env.REPO, fail_dumps=unserializable, tmp_root=tmp_root)
        inj.install()
        inj.armed = True
        code = 0
        try:
            run_op(sc, d, unserializable)
        except BaseException as e:  # noqa: BLE001
            inj.log.append(["raised", None, type(e).__name__])
            code = 3
        inj.armed = False
        sys.settrace(None)
        if log_path:
            with open(log_path, "w") as f:    # builtins.open is patched, but log_path is outside d
                json.dump({"log": inj.log, "n": inj.n}, f)
        os._exit(code)
    except BaseException:  # noqa: BLE001
        import traceback
        traceback.print_exc()
        os._exit(99)


_OTHER_FS = {}


def other_fs_tmp(d):
    """A per-scenario directory on a file system different from d's (None if there is none)."""
    dev = os.stat(d).st_dev
    if dev not in _OTHER_FS:
        _OTHER_FS[dev] = None
        for cand in ("/tmp", "/var/tmp", "/dev/shm", os.path.expanduser("~")):
            try:
                if os.path.isdir(cand) and os.stat(cand).st_dev != dev and os.access(cand, os.W_OK):
                    _OTHER_FS[dev] = cand
                    break
            except OSError:
                pass
    base = _OTHER_FS[dev]
    if base is None:
        return None
    p = os.path.join(base, "verif-c08-tmp-" + os.path.basename(d))
    os.makedirs(p, exist_ok=True)
    return p


def fork_run(sc, d, crash_at=None, line_mode=False, unserializable=False, log_path=None):
    pid = os.fork()
    if pid == 0:
        child_run(sc, d, crash_at, line_mode, unserializable, log_path)
    _, status = os.waitpid(pid, 0)
    return os.waitstatus_to_exitcode(status)


def _rm(d):
    shutil.rmtree(d, True)
    for base in ("/tmp", "/var/tmp", "/dev/shm", os.path.expanduser("~")):
        p = os.path.join(base, "verif-c08-tmp-" + os.path.basename(d))
        if os.path.isdir(p):
            shutil.rmtree(p, True)


def prepare(sc, base):
    d = tempfile.mkdtemp(prefix="c08-", dir=base)
    for i in range(sc["files"]):
        if sc.get("missing"):
            continue
        with open(os.path.join(d, f"f{i}.json"), "wb") as f:
            f.write(json.dumps(initial_content(sc)).encode())
    return d


def snapshot(sc, d):
    out = []
    for i in range(sc["files"]):
        try:
            with open(os.path.join(d, f"f{i}.json"), "rb") as f:
                out.append(f.read())
        except FileNotFoundError:
            out.append(None)
    return out


def reopen_ok(sc, d):
    """A new collection object opens every file normally (run in a child to keep class state clean)."""
    pid = os.fork()
    if pid == 0:
        try:
            make = _mk(sc["cls"], sc["wc"], sc["thr"])
            for i in range(sc["files"]):
                o = make(os.path.join(d, f"f{i}.json"))
                o()
                len(o)
            os._exit(0)
        except BaseException:  # noqa: BLE001
            os._exit(5)
    _, status = os.waitpid(pid, 0)
    return os.waitstatus_to_exitcode(status) == 0


def to_model_trace(log):
    """Control-run event log -> Save.tla events (for TLC trace validation)."""
    ev = []
    done_pending = False
    cur_is_tmp = None
    for name, path, detail in log:
        if name in ("dumps_after", "open_after") and done_pending:
            ev.append({"e": "next", "n": 0})
            done_pending = False
        if name == "dumps_after":
            ev.append({"e": "dumps", "n": 0})
        elif name == "dumps_fail":
            ev.append({"e": "dumps_fail", "n": 0})
        elif name == "open_after":
            cur_is_tmp = not re.match(r"f\d+\.json$", path)
            ev.append({"e": "open_tmp" if cur_is_tmp else "open_target", "n": 0})
        elif name == "write_after":
            ev.append({"e": "write", "n": BLOB})
        elif name == "close_after":
            ev.append({"e": "close", "n": 0})
            if cur_is_tmp is False:
                done_pending = True
        elif name == "replace_after":
            ev.append({"e": "replace", "n": 0})
            done_pending = True
    return ev


def explore_scenario(args):
    sc, base, line_mode = args
    env.install()
    env.lib()          # import the library before forking: the children must not trace / repeat the import
    problems = []
    d0 = prepare(sc, base)
    old = snapshot(sc, d0)
    logp = os.path.join(base, f"log-{sc['name']}-{int(line_mode)}.json")
    rc = fork_run(sc, d0, None, line_mode, False, logp)
    if rc != 0 or not os.path.exists(logp):
        _rm(d0)
        return {"sc": sc["name"], "machinery": f"control run failed rc={rc}", "problems": [], "points": 0, "trace": None}
    new = snapshot(sc, d0)
    info = json.load(open(logp))
    _rm(d0)
    n_events = info["n"]
    points = 0
    kinds = {}
    if sc["atomic"]:
        for k in range(n_events):
            d = prepare(sc, base)
            rc = fork_run(sc, d, k, line_mode)
            now = snapshot(sc, d)
            points += 1
            evname = None
            for i, b in enumerate(now):
                if b != old[i] and b != new[i]:
                    problems.append({"scenario": sc["name"], "aspect": "torn", "crash_event": k, "file": i,
                                     "event": _event_at(info["log"], k),
                                     "detail": f"after a crash at event {k} file f{i} holds {b[:60] if b is not None else None!r}... "
                                               f"(neither old nor new, {len(b) if b is not None else 0} bytes)"})
            if rc == 77 and not any(p["crash_event"] == k for p in problems if "crash_event" in p):
                if not reopen_ok(sc, d):
                    problems.append({"scenario": sc["name"], "aspect": "reopen", "crash_event": k,
                                     "event": _event_at(info["log"], k),
                                     "detail": f"after a crash at event {k} a new collection cannot open the files"})
            _rm(d)
    # serialisation failure must never damage the file (every mode)
    d = prepare(sc, base)
    rc = fork_run(sc, d, None, False, True, None)
    now = snapshot(sc, d)
    if sc["op"] in ("setitem", "reset", "append", "nested"):
        for i, b in enumerate(now):
            if b != old[i]:
                problems.append({"scenario": sc["name"], "aspect": "unserializable", "file": i,
                                 "detail": f"unserialisable content damaged f{i}: {b[:60] if b else b!r}"})
        if rc != 3:
            problems.append({"scenario": sc["name"], "aspect": "unserializable",
                             "detail": f"saving unserialisable content did not raise (rc={rc})"})
    _rm(d)
    return {"sc": sc["name"], "problems": problems, "points": points, "n_events": n_events,
            "trace": {"ev": to_model_trace(info["log"]), "atomic": sc["atomic"], "files": sc["files"], "sc": sc["name"]},
            "log_sample": info["log"][:12]}


def _event_at(log, k):
    # reconstruct which logged entry carries event index k (every log entry but 'raised' is one event)
    evs = [e for e in log if e[0] != "raised"]
    return evs[k] if k < len(evs) else None


def model_check(run):
    """TLC on Save.tla; returns the crash-state classes of the atomic model."""
    crash_classes = set()
    for atomic in (True, False):
        for nfiles in (1, 3):
            invs = ["C08_SerializeFailureHarmless", "C08_SerializeFirst"] + (["C08_OldOrNew"] if atomic else [])
            cfg = tlc.cfg_text(init="MCInit", next_="MCNext",
                               constants={"NFiles": str(nfiles), "BlobLen": str(BLOB),
                                          "Atomic": "TRUE" if atomic else "FALSE", "CanFail": "TRUE"},
                               invariants=invs, action_constraints=["ExportCrash"])
            res = tlc.run("MC_Save", cfg, name=f"save-{int(atomic)}-{nfiles}", timeout=300, coverage=True)
            if not res.ok:
                run.machinery_error(f"TLC MC_Save atomic={atomic} files={nfiles}: {res.violated} {res.errors[:2]} {res.tail(10)}")
                continue
            run.add_tlc(res, f"Save.tla atomic={atomic} NFiles={nfiles}")
            if atomic:
                for c in res.records("CRASH"):
                    crash_classes.add((c["pc"], c["n"]))
    # vacuity: the atomicity invariant must FAIL for the in-place protocol
    cfg = tlc.cfg_text(init="MCInit", next_="MCNext",
                       constants={"NFiles": "1", "BlobLen": str(BLOB), "Atomic": "FALSE", "CanFail": "FALSE"},
                       invariants=["InPlaceIsNotAtomic"])
    res = tlc.run("MC_Save", cfg, name="save-selftest", timeout=300)
    if res.violated != "InPlaceIsNotAtomic":
        run.machinery_error("self-test: Save.tla does not distinguish in-place from atomic writes")
    return crash_classes


def tlaps_proof(run):
    """spec/SaveProof.tla: the TLA+ proof system checks that C08_OldOrNew is inductive for the atomic protocol for
    ANY number of files and blob length (TLC above covers 1 and 3 files, BlobLen 2)."""
    ok, n, tail = tlc.prove("SaveProof", ["Save"])
    if not ok:
        run.machinery_error("TLAPS: SaveProof.tla is not proved: " + tail)
        return
    run.cov["tlaps"] = {"module": "SaveProof", "theorem": "Spec => []C08_OldOrNew (atomic protocol, any NFiles, any BlobLen)",
                        "obligations_proved": n}


def validate_traces(run, traces, atomic):
    if not traces:
        return []
    path = os.path.join(tlc.scratch(), f"save-traces-{int(atomic)}.json")
    with open(path, "w") as f:
        json.dump([{"ev": t["ev"]} for t in traces], f)
    nf = max(t["files"] for t in traces)
    cfg = tlc.cfg_text(init="TInit", next_="TStep",
                       constants={"NFiles": str(nf), "BlobLen": str(BLOB), "Atomic": "TRUE" if atomic else "FALSE",
                                  "CanFail": "TRUE"},
                       invariants=["Report"] + (["C08_OldOrNew"] if atomic else []))
    res = tlc.run("MC_Save", cfg, env={"TRACE_FILE": path}, name=f"tracesave-{int(atomic)}", timeout=300)
    if res.errors or res.rc != 0:
        run.machinery_error(f"TLC TraceSave: {res.errors[:2]} {res.tail(10)}")
        return []
    run.add_tlc(res, f"TraceSave validation atomic={atomic} ({len(traces)} saves)")
    best = [0] * len(traces)
    rx = re.compile(r'^<<"AT", (\d+), (\d+),')
    for line in open(res.out_path):
        m = rx.match(line)
        if m:
            t, l = int(m.group(1)) - 1, int(m.group(2))
            best[t] = max(best[t], l)
    return best


def check_C08(tier):
    run = common.Run("C08", tier, level="fault_enumeration")
    run.cov["rule"] = ("crash points = every primitive event of the save path (json.dumps, open, each of 4 prefix "
                       "lengths of the bytes handed to write(), close, os.replace; before and after) and, in the line "
                       "mode, every executed line of library code, of every scenario (plain / write_concern / "
                       "threading-on saves, nested-child writes, reset, list append, backend-wide flush of 3 files, "
                       "per-object context exit, capacity-forced flush, both buffering strategies; first saves of files that do "
                       "not exist yet, where the previous content is the absence of the file); a case is the "
                       "pair (scenario, crash event); the process is killed with os._exit at that event and every "
                       "file must hold exactly its old or its new bytes and reopen normally; distinct = distinct "
                       "(scenario, event) pairs")
    run.assumptions += ["process crashes only (no power loss / fsync semantics)",
                        "Save.tla model-checked by TLC for atomic and in-place protocols with 1 and 3 files; each "
                        "scenario's real file-operation sequence is validated against Save.tla by TLC; spec/SaveProof.tla: TLAPS proof "
                        "that the atomic protocol keeps every file old-or-new in every reachable state for any number of "
                        "files and blob length",
                        "crash injection through wrappers of builtins.open / file.write / close / os.replace / "
                        "json.dumps and sys.settrace line events inside a forked child; the child's system temp directory is on another "
                        "file system than the data files when the sandbox has one (/tmp vs /dev/shm)"]
    crash_classes = model_check(run)
    tlaps_proof(run)
    base = env.scratch_dir()
    scs = scenarios()
    jobs = [(sc, base, False) for sc in scs]
    if tier == "thorough":
        jobs += [(sc, base, True) for sc in scs]
    else:
        jobs += [(sc, base, True) for sc in scs if sc["name"] in (
            "JSONDict-setitem-wc0-thr1", "BufferedJSONDict-backend-flush-3files",
            "MemoryBufferedJSONDict-forced-flush", "JSONDict-nested-child-write")]
    results = common.pmap(explore_scenario, jobs)
    traces = []
    covered = set()
    for r in results:
        if r.get("machinery"):
            run.machinery_error(f"{r['sc']}: {r['machinery']}")
            continue
        run.cov["evaluations"] += r["points"] + 1
        for k in range(r["points"]):
            run._distinct.add((r["sc"], k))
        for p in r["problems"]:
            run.violation({"op": p["scenario"], **p, "replay_fn": ["chk_save", "replay"]})
        if r["trace"]:
            traces.append(r["trace"])
        run.sample({"scenario": r["sc"], "events": r.get("n_events"), "first_events": r.get("log_sample")}, limit=4)
    # conformance: the observed file-operation sequences are behaviours of Save.tla in the configured mode
    for atomic in (True, False):
        ts = [t for t in traces if t["atomic"] == atomic]
        best = validate_traces(run, ts, atomic)
        for t, b in zip(ts, best):
            run.cov["traces_validated_against_impl"] += 1
            if b < len(t["ev"]) + 1:
                bad = t["ev"][b - 1] if 0 < b <= len(t["ev"]) else None
                run.violation({"op": t["sc"], "scenario": t["sc"], "aspect": "protocol",
                               "detail": f"file-operation sequence is not a behaviour of Save.tla (atomic={atomic}): "
                                         f"event {b} = {bad}; sequence = {[e['e'] for e in t['ev']]}",
                               "replay_fn": ["chk_save", "replay"]})
            for e in t["ev"]:
                covered.add(e["e"])
    for need in ("open_tmp", "write", "close", "replace", "next"):
        if need not in covered:
            run.coverage_error(f"no real save exercised the spec action {need}")
    run.cov["spec_crash_state_classes"] = sorted(f"{a}/{b}" for a, b in crash_classes)
    return run.finish()


def replay(prop, case):
    env.install()
    sc = [s for s in scenarios() if s["name"] == case["scenario"]][0]
    r = explore_scenario((sc, env.scratch_dir(), False))
    if r["problems"]:
        print(f"VIOLATION property={prop} replay={__import__('os').environ.get('VERIF_REPLAY_PATH', '-')} {r['problems'][0]}")
        return 1
    print("not reproduced on this tree")
    return 0
