"""Replay of Sync.tla behaviours (Level-2 sequential mechanism on IDENTITY trees) on the real classes.

A behaviour is the list of observations TLC exported (MC_Sync!Obs):
  {"last": {"a": "init"}, "res": D}
  {"last": {"a": "nav", "o", "i", "s", "id", ...}, "res", "mem": {o: plain}, "pos": [{"o","i","at":[path]}]}
  {"last": {"a": "do",  "o", "i", "op", "attached", "path", "ret"}, ...}
  {"last": {"a": "ext"}, "res": new document, ...}
After every step the harness compares
  * the return value / exception (attached nodes only),
  * the raw resource with `res`,
  * every root object's in-memory image, read WITHOUT loading, with `mem`; every retained node object's own
    image (attached or orphaned) with `img`,
  * the position BY IDENTITY of every retained node object in its root's in-memory tree with `pos`
    (nav on a node the model says already exists must return the very same Python object).
"""
import copy

from . import env, hist, realize, val

ROOT_IDS = {1001: "o1", 1002: "o2"}


def _data(x):
    return getattr(x, "_data", None) if hasattr(x, "_to_base") else None


def _image(x):
    d = _data(x)
    if d is None:
        return x
    if isinstance(d, dict):
        return {k: _image(v) for k, v in d.items()}
    return [_image(v) for v in d]


def _find(root, obj, path=()):
    """All positions of the Python object `obj` (by identity) in the in-memory tree of root; no load."""
    out = []
    if root is obj:
        out.append(path)
    d = _data(root)
    if isinstance(d, dict):
        for k, v in d.items():
            out += _find(v, obj, path + (k,))
    elif isinstance(d, list):
        for i, v in enumerate(d):
            out += _find(v, obj, path + (i,))
    return out


def _path(p):
    return tuple(val.key_to_py(s["k"]) if s["i"] == -1 else s["i"] for s in p)


def replay(spec, steps):
    problems = []
    res = spec.new_resource()
    try:
        res.write_raw(copy.deepcopy(val.to_py(val.norm(steps[0]["res"]))))
        roots = {"o1": res.new_object(), "o2": res.new_object()}
        for r in roots.values():
            len(r)          # MC_Sync!Init0: both objects have loaded the initial document
        nodes = {}
        for n, ob in enumerate(steps[1:], 1):
            last = ob["last"]
            a = last["a"]
            model_res = val.to_py(val.norm(ob["res"]))
            if a == "ext":
                res.write_raw(copy.deepcopy(model_res))
            else:
                o, i = last["o"], last["i"]
                target = roots[o] if i in ROOT_IDS else nodes[(o, i)]
                if a == "nav":
                    try:
                        child = hist._nav(target, last["s"], 0, spec)
                    except Exception as e:  # noqa: BLE001
                        problems.append({"aspect": "ret", "step": n, "detail": f"navigation {last['s']} failed: {e!r}"})
                        break
                    if _data(child) is None:
                        problems.append({"aspect": "ret", "step": n, "detail": f"navigation {last['s']} returned {child!r}"})
                        break
                    key = (o, last["id"])
                    if key in nodes and nodes[key] is not child:
                        problems.append({"aspect": "identity", "step": n, "detail":
                                         f"the model keeps node object {key} at {last['path']}; the library returned a different object"})
                        break
                    if key not in nodes and any(child is x for x in nodes.values()):
                        problems.append({"aspect": "identity", "step": n, "detail":
                                         f"the model creates a new node object at {last['path']}; the library returned an already retained one"})
                        break
                    nodes[key] = child
                else:
                    args = {("given", "x"): nodes[(o, last["given"])]} if last.get("given") else None
                    obs = realize.perform(target, val.norm(last["op"]), 0, args=args)
                    # getitem / setdefault return THE node object that sits at that key (as dict returns the stored
                    # object): the user's next call goes through it
                    if last["op"]["op"] in ("getitem", "setdefault") and obs[0] == "ret" and last["attached"] \
                            and last["ret"].get("t") in ("d", "l") and not last.get("pre"):
                        k = last["op"]
                        step = val.key_to_py(k["k"]) if "k" in k else (k["i"] if k["i"] >= 0 else None)
                        got = obs[1]
                        where = _find(roots[o], got) if _data(got) is not None else None
                        want_at = _path(last["path"]) + (step,) if step is not None else None
                        if where is None or (want_at is not None and where != [want_at]):
                            problems.append({"aspect": "identity", "step": n, "detail":
                                             f"{k['op']} returned {type(got).__name__} which is "
                                             + ("not a synced node object" if where is None else f"in the tree at {where}")
                                             + f"; the node object at {want_at} is expected (writes through the returned object must persist)"})
                            break
                    ok, why = realize.matches(obs, val.norm(last["ret"]))
                    if not ok:
                        if last["op"]["op"] == "popitem" and obs[0] == "ret":
                            return problems       # any item is allowed: the behaviour cannot be followed further
                        problems.append({"aspect": "ret" if last["attached"] else "orphan-ret", "step": n, "detail": why})
                        break
            raw = res.read_raw()
            if raw is env.MISSING:
                raw = {} if spec.kind == "d" else []
            if not val.same_typed(raw, model_res):
                problems.append({"aspect": "raw", "step": n, "detail": f"backend holds {raw!r}, model {model_res!r}"})
                break
            for oname, m in ob.get("mem", {}).items():
                img, want = _image(roots[oname]), val.to_py(val.norm(m))
                if not val.same_typed(img, want):
                    problems.append({"aspect": "image", "step": n, "detail":
                                     f"in-memory image of {oname} (no load) is {img!r}, model tree {want!r}"})
            for pe in ob.get("pos", []):
                key = (pe["o"], pe["i"])
                if key not in nodes:
                    continue
                real = sorted(_find(roots[pe["o"]], nodes[key]), key=repr)
                want = sorted((_path(p) for p in pe["at"]), key=repr)
                if real != want:
                    problems.append({"aspect": "identity", "step": n, "detail":
                                     f"node object {key}: in the library's tree at {real}, in the model's tree at {want}"})
                img, wimg = _image(nodes[key]), val.to_py(val.norm(pe["img"]))
                if not val.same_typed(img, wimg):
                    problems.append({"aspect": "image", "step": n, "detail":
                                     f"node object {key} ({'attached' if want else 'orphan'}) holds {img!r} (no load), model {wimg!r}"})
            if problems:
                break
        return problems
    finally:
        res.dispose()
