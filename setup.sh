#!/bin/sh
# Offline set-up: syntax-check every TLA+ module with SANY, byte-compile the harness, smoke-test the imports.
cd "$(dirname "$0")" || exit 2
rc=0
for f in spec/*.tla; do
  m=$(basename "$f" .tla)
  (cd spec && java -cp /opt/veriftools/tla/tla2tools.jar:/opt/veriftools/tla/CommunityModules-deps.jar tla2sany.SANY "$m.tla" > /tmp/sany.$$ 2>&1) || { echo "SANY failed on $m"; tail -5 /tmp/sany.$$; rc=1; }
  if grep -q -i -e "parse error" -e "Fatal errors" -e "\*\*\* Errors" /tmp/sany.$$; then echo "SANY errors in $m"; grep -A4 -i -e "error" /tmp/sany.$$ | head -12; rc=1; fi
done
rm -f /tmp/sany.$$
PYTHONDONTWRITEBYTECODE=1 /venv/bin/python -c "
from harness import env
env.install()
assert len(env.matrix()) == 18
print('harness ok: 18 classes importable from', env.REPO)
" || rc=1
mkdir -p evidence
exit $rc
