#!/bin/sh
# Offline set-up: syntax-check every TLA+ module with SANY, byte-compile the harness, smoke-test the imports.
cd "$(dirname "$0")" || exit 2
rc=0
for f in spec/*.tla; do
  m=$(basename "$f" .tla)
  case "$m" in *Proof) continue;; esac     # proof modules import TLAPS.tla: they are checked by tlapm below
  (cd spec && java -cp /opt/veriftools/tla/tla2tools.jar:/opt/veriftools/tla/CommunityModules-deps.jar tla2sany.SANY "$m.tla" > /tmp/sany.$$ 2>&1) || { echo "SANY failed on $m"; tail -5 /tmp/sany.$$; rc=1; }
  if grep -q -i -e "parse error" -e "Fatal errors" -e "\*\*\* Errors" /tmp/sany.$$; then echo "SANY errors in $m"; grep -A4 -i -e "error" /tmp/sany.$$ | head -12; rc=1; fi
done
rm -f /tmp/sany.$$
# the TLAPS proofs (re-proved by the checks of C08 / C19 too)
pd=$(mktemp -d) && cp spec/Save.tla spec/SaveProof.tla spec/Resolver.tla spec/ResolverProof.tla "$pd"/ && for m in SaveProof ResolverProof; do
  (cd "$pd" && timeout 600 tlapm --cleanfp "$m.tla" > "$pd/$m.out" 2>&1)
  grep -q "obligations proved" "$pd/$m.out" || { echo "tlapm did not prove $m"; tail -5 "$pd/$m.out"; rc=1; }
done
rm -rf "$pd"
PYTHONDONTWRITEBYTECODE=1 /venv/bin/python -c "
from harness import env
env.install()
assert len(env.matrix()) == 18
print('harness ok: 18 classes importable from', env.REPO)
" || rc=1
mkdir -p evidence
exit $rc
