#!/bin/bash
# usage: seedrun.sh <seed name e.g. C04-A> <check id>...   runs quick checks against a scratch worktree with the seed applied
s=$1; shift
wt=/tmp/sw-$s-$$
git -C /repo worktree add -q "$wt" HEAD || exit 2
trap 'git -C /repo worktree remove --force "$wt" >/dev/null 2>&1' EXIT
( cd "$wt" && { git apply /verif/seeded/$s/patch.diff 2>/dev/null || git apply -3 /verif/seeded/$s/patch.diff; } ) || { echo "SEEDRUN $s: patch does not apply"; exit 3; }
for id in "$@"; do
  out=/tmp/seedrun-$s-$id.out
  ( cd /verif && VERIF_REPO=$wt VERIF_EVIDENCE_DIR=/tmp/seed-evidence/$s VERIF_REPLAY_DIR=/tmp/seed-replays/$s timeout 3000 ./check "$id" --tier ${TIER:-quick} > $out 2>&1 ); rc=$?
  echo "SEEDRUN $s check=$id rc=$rc viol=$(grep -c '^VIOLATION' $out) known=$(grep -c '^KNOWN-FINDING' $out) :: $(grep -m1 'first violation' $out | cut -c1-300)"
done
