#!/usr/bin/env python3
"""Run the quick checks against every seeded change (each applied in a scratch worktree of /repo HEAD, see
tools/seedrun.sh) and record which checks detect it: seeded/<id>/meta.json (detected_by) and seeded/RESULTS.md."""
import json
import os
import re
import subprocess
import sys
from concurrent.futures import ThreadPoolExecutor

VERIF = os.path.dirname(os.path.dirname(os.path.abspath(__file__)))
PLAN = {
    "C01-A": ["C01", "C03"], "C01-B": ["C01"], "C02-A": ["C02", "C04"], "C02-B": ["C05", "C06"], "C03-A": ["C03"],
    "C03-B": ["C05", "C03"], "C04-A": ["C04", "C02"], "C04-B": ["C06"], "C05-A": ["C05"], "C05-B": ["C05", "C15"],
    "C06-A": ["C06"], "C06-B": ["C06", "C15"], "C07-A": ["C07"], "C07-B": ["C07", "C05"], "C08-A": ["C08"],
    "C08-B": ["C08"], "C09-A": ["C09"], "C09-B": ["C09"], "C10-A": ["C10"], "C10-B": ["C10"], "C11-A": ["C11"],
    "C11-B": ["C11"], "C12-A": ["C12", "C03"], "C12-B": ["C12"], "C13-A": ["C13", "C14"], "C13-B": [],
    "C14-A": ["C14"], "C14-B": ["C14", "C13"], "C15-A": ["C15"], "C15-B": ["C15"], "C16-A": ["C16"], "C16-B": ["C16"],
    "C17-A": ["C17"], "C17-B": ["C17"], "C18-A": ["C18"], "C18-B": ["C18"], "C19-A": ["C19"], "C19-B": ["C19"],
    # second batch (made against the repaired tree)
    "C02-C": ["C02", "C12"], "C02-D": ["C02", "C04"], "C04-C": ["C04", "C02"], "C04-D": ["C04"], "C05-C": ["C05"],
    "C05-D": ["C05", "C15"], "C06-C": ["C06"], "C06-D": ["C14", "C13"], "C07-C": ["C07"], "C07-D": ["C07"],
    "C09-C": ["C09"], "C09-D": ["C09"], "C13-C": ["C14", "C13"], "C13-D": ["C13", "C09"], "C15-C": ["C15"],
    "C15-D": ["C15"],
    # third batch (made against the tree with all 18 fixes)
    "C01-C": ["C01", "C04"], "C01-D": ["C09", "C13", "C14"], "C03-C": ["C03"], "C03-D": ["C03", "C01"],
    "C10-C": ["C10"], "C10-D": ["C10"], "C11-C": ["C11"], "C11-D": ["C11"], "C14-C": ["C14", "C08"],
    "C14-D": ["C14", "C13"], "C16-C": ["C16"], "C16-D": ["C16"], "C17-C": ["C17", "C07"], "C17-D": ["C17", "C15"],
    "C18-C": ["C18", "C15", "C05"], "C18-D": ["C18", "C02"],
    # fourth batch
    "C08-C": ["C08"], "C08-D": ["C08"], "C12-C": ["C12", "C02"], "C12-D": ["C12"], "C19-C": ["C19"], "C19-D": ["C19"],
    "C05-E": ["C05", "C06"], "C05-F": ["C05", "C06"], "C06-E": ["C06", "C05"], "C06-F": ["C06"], "C07-E": ["C07"],
    "C07-F": ["C07", "C15"], "C15-E": ["C15"], "C15-F": ["C15"], "C02-E": ["C02", "C04"], "C02-F": ["C02", "C04"],
    # fifth batch
    "C04-E": ["C04", "C06"], "C04-F": ["C04", "C02"], "C09-E": ["C09"], "C09-F": ["C09"], "C13-E": ["C13"], "C13-F": ["C13", "C10"],
    "C16-E": ["C16"], "C16-F": ["C16", "C04"], "C11-E": ["C11"], "C11-F": ["C11"], "C18-E": ["C18"], "C18-F": ["C18", "C16"],
    "C17-E": ["C17"], "C17-F": ["C17"], "C10-E": ["C10"], "C10-F": ["C10", "C14"],
    # sixth batch
    "C01-E": ["C01", "C04"], "C01-F": ["C01"], "C03-E": ["C03"], "C03-F": ["C03"], "C14-E": ["C14"], "C14-F": ["C14"],
    "C12-E": ["C12"], "C12-F": ["C12", "C01"], "C08-E": ["C08"], "C08-F": ["C08"], "C19-E": ["C19"], "C19-F": ["C19"],
    "C06-G": ["C06"], "C06-H": ["C06"], "C15-G": ["C15"], "C15-H": ["C15"],
    # seventh batch
    "C14-G": ["C14"], "C14-H": ["C14"], "C13-G": ["C13", "C10"], "C13-H": ["C13", "C10"], "C10-G": ["C10"], "C10-H": ["C10", "C13"],
    "C04-G": ["C04", "C02"], "C04-H": ["C06"], "C17-G": ["C17"], "C17-H": ["C17"], "C02-G": ["C02", "C04"], "C02-H": ["C02"],
    "C16-G": ["C16", "C04"], "C16-H": ["C16"], "C05-G": ["C05", "C06"], "C05-H": ["C05", "C06"],
    # eighth batch (properties with fast checks)
    "C11-I": ["C11"], "C11-J": ["C11"], "C16-I": ["C16"], "C16-J": ["C16"], "C18-I": ["C18"], "C18-J": ["C18"],
    "C08-I": ["C08"], "C08-J": ["C08"], "C12-I": ["C12"], "C12-J": ["C12"], "C03-I": ["C03"], "C03-J": ["C03"],
}


def run(seed):
    checks = PLAN.get(seed, [])
    if not checks:
        return seed, {}
    p = subprocess.run([os.path.join(VERIF, "tools", "seedrun.sh"), seed] + checks, capture_output=True, text=True)
    out = {}
    for line in p.stdout.splitlines():
        m = re.match(r"SEEDRUN (\S+) check=(\S+) rc=(\d+) viol=(\d+)", line)
        if m:
            out[m.group(2)] = {"rc": int(m.group(3)), "violation_lines": int(m.group(4))}
        elif "does not apply" in line:
            out["_error"] = "patch does not apply to the current tree"
    return seed, out


def main():
    only = sys.argv[1:]
    seeds = [s for s in sorted(PLAN) if not only or s in only]
    results = {}
    with ThreadPoolExecutor(max_workers=2) as ex:
        for seed, out in ex.map(run, seeds):
            results[seed] = out
            print(seed, out, flush=True)
            mp = os.path.join(VERIF, "seeded", seed, "meta.json")
            meta = json.load(open(mp))
            meta["detected_by"] = sorted(c for c, r in out.items() if isinstance(r, dict) and r.get("rc") == 1)
            meta["checks_run"] = {c: r for c, r in out.items()}
            if "_error" in out:
                meta["status"] = out["_error"]
            elif meta.get("status") == "patch does not apply to the current tree":
                meta.pop("status")
            json.dump(meta, open(mp, "w"), indent=1)
    lines = ["# Seeded changes vs quick checks", "",
             "Each seed applied in a scratch worktree of /repo HEAD (tools/seedrun.sh); rc=1 = detected (VIOLATION), "
             "rc=0 = not detected, rc=2 = machinery failure.", "", "| seed | breaks | checks run (rc) | detected by |", "|---|---|---|---|"]
    for seed in sorted(PLAN):
        mp = os.path.join(VERIF, "seeded", seed, "meta.json")
        meta = json.load(open(mp))
        runs = ", ".join(f"{c}({r.get('rc')})" for c, r in meta.get("checks_run", {}).items() if isinstance(r, dict))
        status = meta.get("status", "")
        lines.append(f"| {seed} | {meta.get('breaks', '')[:110]} | {runs or '-'}{' — ' + status[:160] if status else ''} | "
                     f"{', '.join(meta.get('detected_by', [])) or ('(not a valid seed any more)' if status else '-')} |")
    open(os.path.join(VERIF, "seeded", "RESULTS.md"), "w").write("\n".join(lines) + "\n")


if __name__ == "__main__":
    main()
