#!/bin/bash
# usage: try_seed.sh <dir with patch.diff> <check id>...   -- applies the patch to /repo, runs the quick checks, reverts
d=$(realpath "$1"); shift
cd /repo && git diff --quiet || { echo "/repo dirty"; exit 2; }
git -C /repo apply "$d/patch.diff" 2>/dev/null || git -C /repo apply -3 "$d/patch.diff" || { echo "patch does not apply"; exit 3; }
for id in "$@"; do
  cd /verif && VERIF_EVIDENCE_DIR=/tmp/seed-evidence VERIF_REPLAY_DIR=/tmp/seed-replays timeout 1800 ./check "$id" --tier ${TIER:-quick} > /tmp/try-$id.out 2>&1; rc=$?
  echo "CHECK $id on $(basename $(dirname $d))/$(basename $d): rc=$rc  $(grep -c '^VIOLATION' /tmp/try-$id.out) violation lines; $(grep -m1 'first violation' /tmp/try-$id.out | cut -c1-400)"
done
git -C /repo checkout -- . ; git -C /repo status --short | head -3
