#!/usr/bin/env python3
"""Regenerates /verif/MANIFEST.json from the table below (one source of truth for the interface)."""
import json
import os

VERIF = os.path.dirname(os.path.dirname(os.path.abspath(__file__)))

FAKES = ("Redis/MongoDB/Zarr classes run against in-memory fakes of the few client calls the backends make "
         "(no servers, redis/pymongo/zarr/numpy are not installed); TLC 1.8, SANY, CPython 3.12 and the harness "
         "(value codec, realisations, comparators) are trusted")

BUF = ("TLC generates input sequences from spec/BufContract.tla (exhaustive BFS of a tiny instance with the Level-1 "
       "invariants/action properties checked, plus tlc -simulate of a larger one); the harness executes them on the real "
       "{Buffered,MemoryBuffered}JSON{,Attr}{Dict,List} classes recording every returned value, exception, file content, "
       "file rewrite, reported size and capacity; TLC (spec/TraceBuf.tla) decides whether each recorded trace is a "
       "behaviour of BufContract, and the failing observation clause of a rejected trace is named by re-validation with "
       "that clause relaxed")
BUFNOTE = ("bounds of spec/MC_BufContract.tla; BufContract is deliberately nondeterministic where the properties leave a "
           "choice; objects on one file are only used in a common buffered state; outside writes are always detectable; " + FAKES)

THR = ("Small multi-threaded programs run on the real classes under a deterministic scheduler (real threads parked at lock "
       "acquire/release, suspend-counter enter/exit, load/save, open/replace, buffer load/save/flush) for every schedule "
       "within a preemption bound; every distinct recorded call/return history plus final file content is judged by TLC "
       "against Lin.tla (linearizability with PyOps semantics). Threads.tla models the same steps; TLC checks it with the "
       "flags describing the current code, must find a witness for every deviation flag, and its terminal behaviours are "
       "replayed through the scheduler (matched synchronisation steps are counted).")
THRNOTE = ("JSON backend only (the only one with threading support); preemption bound 2 at primitive granularity (line-level "
           "in the thorough tier); locks are substituted by scheduler locks at import time; TLC, the scheduler and Lin/PyOps are trusted")

CHECKS = {
    "C01": dict(
        technique="TLC enumeration of spec/PyOps.tla edges replayed on all 18 classes; raw resource compared",
        category="model_checking",
        text=("TLC enumerates every (container state, mutator, argument) edge of the operation catalogue "
              "(MC_PyOps) within small bounds; every edge is executed on the real classes at nesting depth 1-3 in "
              "three write configurations (default, write_concern, multithreading support disabled) and the raw "
              "resource, read without the library, must equal the spec's successor content exactly. Multi-step "
              "histories are covered by C04's Contract.tla replay. Bounded model checking plus replay conformance."),
        note="bounds of spec/MC_PyOps.tla; PyOps cross-validated against CPython on every edge; " + FAKES,
        design="5/C01"),
    "C02": dict(
        technique="TLC BFS/simulation of spec/Contract.tla (outside writer, retained child handles) replayed on all classes",
        category="model_checking",
        text=("Contract.tla models several root objects and retained nested-child handles on one resource plus an "
              "outside writer; TLC explores a small instance exhaustively (checking the Level-1 invariants) and "
              "simulates a larger one; sampled edges (with shortest paths) and simulated behaviours are replayed on "
              "the real classes: every read must return the model value, writes through attached children must "
              "persist, nested objects must be of the root's family."),
        note="bounds of spec/MC_Contract.tla; handles that lose their guarantee are dropped; " + FAKES,
        design="5/C02"),
    "C03": dict(
        technique="TLC depth-1 enumeration of spec/PyOps.tla (cross-validated vs CPython) replayed on all classes",
        category="model_checking",
        text=("PyOps.tla transcribes dict/list semantics (mixins, slices, negative/out-of-range indices, "
              "comparisons); TLC enumerates all bounded states x operations x arguments and checks the "
              "catalogue's own invariants; the harness first shows the transcription equal to CPython on every "
              "edge, then executes every edge on the synced classes at root and nested positions, comparing "
              "result, exception class and content."),
        note="bounded value/argument sets listed in spec/MC_PyOps.tla; dict order not modelled; " + FAKES,
        design="5/C03"),
    "C04": dict(
        technique=("TLC BFS/simulation of spec/Contract.tla (2 objects + child handles on one resource) replayed on all classes; "
                   "TLC BFS of spec/Sync.tla (mechanism on object identities, statements as action properties on every edge) "
                   "with sampled behaviours replayed comparing results, resource, in-memory images and identities"),
        category="model_checking",
        text=("Same generator as C02; after every mutator issued through any handle the raw resource must equal "
              "the model document, i.e. the operation applied at the handle's path to the CURRENT document, so "
              "changes made through other handles survive. Sync.tla states the same on the mechanism (load, in-place "
              "merge, mutate the node object, save the root; orphans) and is conformance-checked step by step."),
        note="bounds of spec/MC_Contract.tla and spec/MC_Sync.tla; " + FAKES, design="5/C04"),
    "C05": dict(technique="TLC-generated inputs (BufContract.tla) executed on buffered classes; recorded traces validated by TLC (TraceBuf.tla)",
                category="model_checking", text=BUF + ". C05: one object per file; claimed clauses: returned values, file contents, file rewrites, exceptions.",
                note=BUFNOTE, design="5/C05"),
    "C06": dict(technique="TLC-generated inputs (BufContract.tla, two objects on one file) executed; traces validated by TLC (TraceBuf.tla)",
                category="model_checking", text=BUF + ". C06: two objects bound to one file in a common buffered state.",
                note=BUFNOTE, design="5/C06"),
    "C07": dict(technique="TLC-generated inputs with outside writers (BufContract.tla, 2 files) executed; traces validated by TLC (TraceBuf.tla)",
                category="model_checking", text=BUF + ". C07: two files / three objects with an outside writer; claimed clauses: file contents, rewrites, which files an error names, capacity afterwards.",
                note=BUFNOTE, design="5/C07"),
    "C08": dict(technique="Save.tla model-checked by TLC; real file-operation sequences validated against it by TLC; fork-and-kill crash injection at every primitive and executed line",
                category="fault_enumeration",
                text=("Save.tla (pc-labelled save protocol with a Crash action enabled everywhere) is model-checked for the atomic "
                      "and in-place protocols; the file-operation sequence of every real save scenario is validated against it by "
                      "TLC (an in-place write or a replace before close in atomic mode is rejected); a process crash is injected "
                      "at every primitive file operation, 4 prefix lengths of every write, and every executed line of the save / "
                      "flush path, after which every file must hold exactly old or new bytes and reopen; injected "
                      "serialisation failures must leave the file untouched in every mode."),
                note="process crashes only (no fsync/power-loss semantics); scenarios listed in harness/chk_save.py; JSON backend only (the property is about JSON files)",
                design="5/C08"),
    "C09": dict(technique="Threads.tla model-checked by TLC (locks, suspend counter, load/merge/save steps) + TLC behaviours replayed under a deterministic scheduler + recorded histories judged by TLC against Lin.tla",
                category="model_checking", text=THR + " C09: pairs (thorough: triples) of writer threads over the full mutator menu, same object / two objects on one file / nested-child handles.",
                note=THRNOTE, design="5/C09"),
    "C10": dict(technique="Threads.tla model-checked by TLC with deadlock checking and fault actions; schedules replayed / explored under a deterministic scheduler; lock state inspected",
                category="model_checking", text=THR + " C10: fault programs (unparsable file, rejected value, missing key, removed directory), lock-order programs (clear/reset vs setitem, buffered and not), filename re-pointing; a schedule with no runnable thread is a deadlock; afterwards every collection / class / buffer lock must be free.",
                note=THRNOTE, design="5/C10"),
    "C11": dict(technique="TLC enumeration of forbidden-argument edges (MC_PyOps tier=forbid) replayed on all classes; memory and backend scanned",
                category="model_checking",
                text=("TLC enumerates every mutating entry point x forbidden item kind x position of the item inside the "
                      "argument and checks the catalogue invariants (forbidden argument => rejected, nothing forbidden in the "
                      "result, rejected single-element operation changes nothing); every edge is executed at root / nested "
                      "dict / nested list / depth 3 on every class; constructor data and the reflected public API surface "
                      "are checked too."),
                note="bounds of spec/MC_PyOps.tla (tier forbid); NaN/Infinity not treated as forbidden; Zarr forbids only non-string keys; " + FAKES,
                design="5/C11"),
    "C12": dict(technique="TLC enumeration of storing edges over all bounded JSON values, replayed with concretisation pools; fresh-object read-back",
                category="model_checking",
                text=("Every storing entry point x every bounded JSON value (5 leaf types, nesting depth 2) enumerated by TLC "
                      "is executed and read back through a fresh object, comparing structure and leaf types; abstract atoms "
                      "are concretised from pools of boundary scalars; random deeper values supplement (exploration)."),
                note="byte-level scalar encoding only sampled through the pools; " + FAKES, design="5/C12"),
    "C13": dict(technique="systematic schedule exploration of buffered mutator pairs under a deterministic scheduler; histories per file judged by TLC against Lin.tla; Threads.tla (Buffered) model-checked",
                category="model_checking", text=THR + " C13: two threads of buffered mutators inside one buffer_backend(capacity in {large,0,1}) on distinct files, one object, or two objects on one file; no operation may raise, no deadlock, per-file linearizability after the exit, size 0, locks free.",
                note=THRNOTE, design="5/C13"),
    "C14": dict(technique="Threads.tla (lock-free readers as a deviation flag) model-checked by TLC; schedules explored/replayed under a deterministic scheduler; histories judged by TLC against Lin.tla",
                category="model_checking", text=THR + " C14: one reader next to one writer on one object or two objects on one file, unbuffered and inside buffered contexts of both strategies, existing and missing files.",
                note=THRNOTE + "; one open known finding (same-object reader/writer race) is reported as KNOWN-FINDING", design="5/C14"),
    "C15": dict(technique="TLC-generated inputs with capacity changes (BufContract.tla) executed; reported size/capacity validated by TLC (TraceBuf.tla)",
                category="model_checking", text=BUF + ". C15: claimed clauses: reported size and capacity after every step.",
                note=BUFNOTE + "; EncLen of the spec equals len(json.dumps) on the bounded atoms", design="5/C15"),
    "C16": dict(technique="TLC-enumerated container-taking/returning edges replayed with user-side mutation of arguments/results",
                category="model_checking",
                text=("For every MC_PyOps edge that takes a container argument or returns detached data the harness mutates "
                      "every container reachable from what the user holds and requires collection() and the raw backend "
                      "unchanged; arguments are also passed as live synced children of the same tree and of another "
                      "collection and independence is checked both ways."),
                note="bounds of spec/MC_PyOps.tla; " + FAKES, design="5/C16"),
    "C18": dict(technique="Attr.tla edges (name class x get/set/del x attribute/item) enumerated by TLC and replayed with concrete names; reflective protected-name check; family type walk",
                category="model_checking",
                text=("Attr.tla states the routing of attribute access per name class and TLC checks its action properties on every "
                      "edge; every edge is executed with concrete names (every protected name, dunders, method names, '_id', a "
                      "non-identifier) on the 6 attribute-access dict classes at depth 0-2; instance attributes are enumerated by "
                      "reflection; a no-load type walk of the in-memory tree after random operation / reload / buffered-context "
                      "sequences checks the nested family for all 18 classes (C02's replay checks it at every navigation step)."),
                note="writing to a name that is an existing class attribute is unspecified; one open known finding (test-pinned); " + FAKES,
                design="5/C18"),
    "C19": dict(technique="Resolver.tla (memo + blocklist) model-checked by TLC; all TLC-enumerated call histories replayed on the 7 real resolvers; end-to-end probes vs a fresh interpreter",
                category="model_checking",
                text=("Resolver.tla transcribes get_type (memo keyed by type, blocklist for instance-dependent types); TLC checks "
                      "history independence for all call sequences over the abstract pool and produces the witness when the "
                      "blocklist is dropped; every sequence is replayed on each module-level resolver and validation / conversion / "
                      "merging outcomes after warm-up histories are compared with a fresh interpreter."),
                note="numpy is absent: a minimal fake numpy module is injected to exercise instance-dependent arrays; late ABC registration excluded",
                design="5/C19"),
    "C17": dict(technique="TLC-enumerated read edges + Contract/BufContract read-only behaviours replayed with write auditing; buffered traces validated by TLC",
                category="model_checking",
                text=("All read edges of MC_PyOps on existing and missing resources for all classes with an audit hook on "
                      "open/replace and inode/size/mtime (or fake write counters) compared; reads/navigation in Contract.tla "
                      "histories; read-only input sequences of BufContract.tla in nested buffered contexts validated by TLC."),
                note="bounds of the three MC_* modules; " + FAKES, design="5/C17"),
}

PENDING_REASON = "check not built yet in this round (planned: see DESIGN.md section 5); nothing is claimed for it"


def main():
    props = [json.loads(l) for l in open(os.path.join(VERIF, "properties.jsonl"))]
    checks = []
    na = []
    for p in props:
        pid = p["id"]
        c = CHECKS.get(pid)
        if c is None:
            na.append({"property_id": pid, "reason": PENDING_REASON})
            continue
        checks.append({
            "property_id": pid,
            "quick_cmd": f"./check {pid} --tier quick",
            "thorough_cmd": f"./check {pid} --tier thorough",
            "evidence_file": f"/verif/evidence/{pid}.json",
            "replay_cmd_template": f"./check {pid} --replay {{path}}",
            "engine": "tlc+replay",
            "level_claimed": {"category": c["category"], "text": c["text"], "design_ref": c["design"]},
            "level_note": c["note"],
            "technique": c["technique"],
        })
    m = {
        "version": 1,
        "setup_cmd": "./setup.sh",
        "hooks": {
            "guard": "SYNCED_COLLECTIONS_VERIF",
            "enable": "no source hooks are needed: the harness observes and controls the library from outside "
                      "(module-namespace patching of RLock/_CounterContext/_load_from_resource/_save_to_resource, "
                      "audit hooks, fakes); checks import /repo's working tree directly via sys.path",
            "baseline_off_cmd": "cd /repo && /venv/bin/python -m pytest -ra -q -p no:cacheprovider --timeout=900 "
                                "--continue-on-collection-errors",
            "source_commits": [],
            "add_only": True,
        },
        "engines": [
            {"name": "tlc+replay", "path": "/verif/harness", "serves_properties": [c["property_id"] for c in checks],
             "kind_free_text": "explicit TLA+ specifications (spec/*.tla) model-checked with TLC; TLC-generated "
                               "edges/behaviours replayed into the real classes and recorded executions validated "
                               "by TLC trace specs"},
        ],
        "checks": checks,
        "not_applicable": na,
        "notes": "See DESIGN.md. known_findings.json lists recorded / fixed genuine defects.",
    }
    with open(os.path.join(VERIF, "MANIFEST.json"), "w") as f:
        json.dump(m, f, indent=1)
    print(f"MANIFEST.json: {len(checks)} checks, {len(na)} not yet claimed")


if __name__ == "__main__":
    main()
