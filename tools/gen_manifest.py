#!/usr/bin/env python3
"""Regenerates /verif/MANIFEST.json from the table below (one source of truth for the interface)."""
import json
import os

VERIF = os.path.dirname(os.path.dirname(os.path.abspath(__file__)))

FAKES = ("Redis/MongoDB/Zarr classes run against in-memory fakes of the few client calls the backends make "
         "(no servers, redis/pymongo/zarr/numpy are not installed); TLC 1.8, SANY, CPython 3.12 and the harness "
         "(value codec, realisations, comparators) are trusted")

CHECKS = {
    "C01": dict(
        technique="TLC enumeration of spec/PyOps.tla + Contract.tla edges replayed on all 18 classes; raw resource compared",
        category="model_checking",
        text=("TLC enumerates every (container state, mutator, argument) edge of the operation catalogue "
              "(MC_PyOps) and the reachable multi-step graph of Contract.tla within small bounds; every edge is "
              "executed on the real classes at nesting depth 1-3 in three write configurations and the raw "
              "resource, read without the library, must equal the spec's successor content exactly. Bounded "
              "model checking of the spec plus replay conformance; not a proof beyond the bounds."),
        note="bounds of spec/MC_PyOps.tla and MC_Contract.tla; PyOps cross-validated against CPython on every edge; " + FAKES,
        design="5/C01"),
    "C03": dict(
        technique="TLC depth-1 enumeration of spec/PyOps.tla (cross-validated vs CPython) replayed on all classes",
        category="model_checking",
        text=("PyOps.tla transcribes dict/list semantics (mixins, slices, negative/out-of-range indices, "
              "comparisons); TLC enumerates all bounded states x operations x arguments and checks the "
              "catalogue's own invariants; the harness first shows the transcription equal to CPython on every "
              "edge, then executes every edge on the synced classes at root and nested positions, comparing "
              "result, exception class and content."),
        note="bounded value/argument sets listed in spec/MC_PyOps.tla; dict order not modelled; " + FAKES,
        design="5/C03"),
}

PENDING_REASON = "check not built yet in this round (planned: see DESIGN.md section 5); nothing is claimed for it"


def main():
    props = [json.loads(l) for l in open(os.path.join(VERIF, "properties.jsonl"))]
    checks = []
    na = []
    for p in props:
        pid = p["id"]
        c = CHECKS.get(pid)
        if c is None:
            na.append({"property_id": pid, "reason": PENDING_REASON})
            continue
        checks.append({
            "property_id": pid,
            "quick_cmd": f"./check {pid} --tier quick",
            "thorough_cmd": f"./check {pid} --tier thorough",
            "evidence_file": f"/verif/evidence/{pid}.json",
            "replay_cmd_template": f"./check {pid} --replay {{path}}",
            "engine": "tlc+replay",
            "level_claimed": {"category": c["category"], "text": c["text"], "design_ref": c["design"]},
            "level_note": c["note"],
            "technique": c["technique"],
        })
    m = {
        "version": 1,
        "setup_cmd": "./setup.sh",
        "hooks": {
            "guard": "SYNCED_COLLECTIONS_VERIF",
            "enable": "no source hooks are needed: the harness observes and controls the library from outside "
                      "(module-namespace patching of RLock/_CounterContext/_load_from_resource/_save_to_resource, "
                      "audit hooks, fakes); checks import /repo's working tree directly via sys.path",
            "baseline_off_cmd": "cd /repo && /venv/bin/python -m pytest -ra -q -p no:cacheprovider --timeout=900 "
                                "--continue-on-collection-errors",
            "source_commits": [],
            "add_only": True,
        },
        "engines": [
            {"name": "tlc+replay", "path": "/verif/harness", "serves_properties": [c["property_id"] for c in checks],
             "kind_free_text": "explicit TLA+ specifications (spec/*.tla) model-checked with TLC; TLC-generated "
                               "edges/behaviours replayed into the real classes and recorded executions validated "
                               "by TLC trace specs"},
        ],
        "checks": checks,
        "not_applicable": na,
        "notes": "See DESIGN.md. known_findings.json lists recorded / fixed genuine defects.",
    }
    with open(os.path.join(VERIF, "MANIFEST.json"), "w") as f:
        json.dump(m, f, indent=1)
    print(f"MANIFEST.json: {len(checks)} checks, {len(na)} not yet claimed")


if __name__ == "__main__":
    main()
