#!/bin/bash
# usage: verify_seed.sh <dir with patch.diff demo.py>   -- confirms a seeded change in a scratch worktree of /repo HEAD
set -u
d=$(realpath "$1"); wt=/tmp/vs-$$-$RANDOM
git -C /repo worktree add -q "$wt" HEAD || exit 2
cleanup() { git -C /repo worktree remove --force "$wt" >/dev/null 2>&1; }
trap cleanup EXIT
cd "$wt"
PYTHONPATH=$wt timeout 300 /venv/bin/python "$d/demo.py" >/tmp/vs-out.$$ 2>&1; r0=$?
if ! git apply "$d/patch.diff" 2>/tmp/vs-err.$$; then
  if ! git apply -3 "$d/patch.diff" 2>>/tmp/vs-err.$$; then echo "SEED $d: PATCH DOES NOT APPLY: $(head -3 /tmp/vs-err.$$)"; exit 3; fi
fi
tests=$(PYTHONPATH=$wt timeout 900 /venv/bin/python -m pytest -q -p no:cacheprovider -n 8 tests 2>&1 | tail -1)
PYTHONPATH=$wt timeout 300 /venv/bin/python "$d/demo.py" >/tmp/vs-out2.$$ 2>&1; r1=$?
echo "SEED $d: demo_unmodified_rc=$r0 demo_modified_rc=$r1 tests='$tests'"
rm -f /tmp/vs-out.$$ /tmp/vs-out2.$$ /tmp/vs-err.$$
