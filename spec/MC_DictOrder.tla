------------------------------- MODULE MC_DictOrder -------------------------------
(* Bounded instance of DictOrder.tla: BFS with the history hidden by VIEW; every SampleK-th edge is exported  *)
(* with the (shortest) path on which its source state was first reached, and replayed on the real classes.   *)
EXTENDS DictOrder, Json, Randomization
CONSTANT SampleK
VARIABLE hist
mcvars == <<ord, file, last, n, hist>>
MCInit == Init /\ hist = <<[op |-> "init", arg |-> ord, ret |-> <<>>, ord |-> ord, file |-> file]>>
MCNext == Next /\ hist' = Append(hist, [op |-> last'.op, arg |-> last'.arg, ret |-> last'.ret, ord |-> ord', file |-> file'])
View == <<ord, file, n>>
ExportPath == (SampleK <= 1 \/ RandomElement(1..SampleK) = 1) => PrintT("ORD " \o ToJson(hist'))
=============================================================================
