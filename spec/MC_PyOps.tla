------------------------------- MODULE MC_PyOps -------------------------------
(***************************************************************************)
(* Depth-1 instance of PyOps: every bounded container state x every        *)
(* operation x every argument.  One initial state per `pre`, one           *)
(* transition per (operation, outcome).  TLC checks the per-operation      *)
(* properties below and exports every edge for the harness, which runs it  *)
(* against CPython's dict/list (transcription check) and against the real  *)
(* collection classes (C03, C01, C11, C12, C16, C17).                      *)
(***************************************************************************)
EXTENDS PyOps, Json
CONSTANTS Kind,    \* "d" | "l"   kind of the container operated on
          Fam,     \* "json" | "attr"
          Tier     \* "quick" | "thorough" | "forbid"
VARIABLES pre, lab, out, ph
vars == <<pre, lab, out, ph>>

Atoms == IF Tier = "thorough" THEN {"n", "i1", "T", "f1", "sa"} ELSE {"n", "i1", "T"}
Leafs == Scalars(Atoms)
\* nested values that can sit inside the container under test
Nested == {EmptyD, D([a |-> S("i1")]), L(<<>>), L(<<S("i1")>>)} \cup
          (IF Tier = "thorough" THEN {D([a |-> L(<<S("n")>>)]), L(<<D([a |-> S("T")])>>)} ELSE {})
Elems == Leafs \cup Nested
Keys == {"a", "b"}
BadVals == {S("x"), D([a |-> S("x")]), L(<<S("x")>>), D(("#1" :> S("i1"))), L(<<D(("#1" :> S("i1")))>>),
            D(("a.b" :> S("i1"))), L(<<D(("a.b" :> S("i1")))>>), D([a |-> D(("a.b" :> S("i1")))]),
            D(("a" :> S("i1")) @@ ("#n" :> S("n"))),
            \* forbidden item BEFORE / AFTER acceptable siblings, and below a list that already holds scalars
            L(<<S("x"), S("i1")>>), L(<<S("i1"), S("x")>>), L(<<D(("#1" :> S("i1"))), S("i1")>>),
            D([a |-> S("x"), b |-> S("i1")]), D([a |-> S("i1"), b |-> S("x")]),
            D([a |-> L(<<S("x")>>)]), D([a |-> L(<<D(("#1" :> S("i1")))>>)]), D([b |-> L(<<S("i1"), S("x")>>)])}
ArgVals == IF Tier = "forbid" THEN BadVals \cup {S("i1"), D([a |-> S("i1")]), L(<<S("i1")>>)}
           ELSE {S("i1"), S("T"), S("n"), S("f1"), EmptyD, D([a |-> S("T")]), D([b |-> L(<<S("i1")>>)]),
                 L(<<>>), L(<<S("T")>>), L(<<S("i1"), D([a |-> S("n")])>>)}
CmpVals == {L(<<>>), L(<<S("i1")>>), L(<<S("T")>>), L(<<S("i1"), S("i1")>>), L(<<S("i2")>>), L(<<S("n")>>),
            L(<<S("sa")>>), L(<<L(<<S("i1")>>)>>), EmptyD, D([a |-> S("i1")]), D([a |-> S("f1")]), S("i1")}
OpKeys == IF Tier = "forbid" THEN {"a", "#1", "a.b"} ELSE {"a", "b", "c"}
Idx == -4..3
Slices == {<<NONE, NONE, NONE>>, <<1, NONE, NONE>>, <<NONE, 2, NONE>>, <<0, 0, NONE>>, <<1, 3, NONE>>,
           <<-2, NONE, NONE>>, <<NONE, -1, NONE>>, <<2, 1, NONE>>, <<NONE, NONE, 2>>, <<1, NONE, 2>>,
           <<NONE, NONE, -1>>, <<-1, 0, -1>>, <<NONE, NONE, -2>>, <<5, 9, NONE>>, <<NONE, NONE, 0>>,
           <<-9, 9, 1>>}

States == IF Kind = "d" THEN DictsOver(Keys, Elems)
          ELSE ListsOver(IF Tier = "thorough" THEN 3 ELSE 3,
                         IF Tier = "thorough" THEN Leafs \cup {D([a |-> S("i1")]), L(<<S("i1")>>)}
                         ELSE {S("i1"), S("T"), S("n"), D([a |-> S("i1")]), L(<<S("i1")>>)})
Ops == IF Kind = "d" THEN DictOps(OpKeys, ArgVals, CmpVals)
       ELSE ListOps(Idx, Slices, ArgVals, CmpVals)

Init == /\ pre \in States
        /\ lab = [op |-> "init"]
        /\ out = [val |-> pre, ret |-> Null]
        /\ ph = 0
Next == /\ ph = 0
        /\ \E o \in Ops : \E r \in Apply(pre, o, Fam) : lab' = o /\ out' = r
        /\ ph' = 1
        /\ pre' = pre

Export == PrintT("EDGE " \o ToJson([pre |-> pre, lab |-> lab', out |-> out']))

(***************************************************************************)
(* Properties of the operation catalogue itself (checked on every edge).   *)
(***************************************************************************)
Raised == ph = 1 /\ IsErr(out.ret)
\* C03: an operation that raises for a missing key / index / element changes nothing
C03_ErrorsChangeNothing == Raised /\ out.ret.e # "Rejected" => out.val = pre
\* C17: reads change nothing
C17_ReadsChangeNothing == ph = 1 /\ IsRead(lab.op) => out.val = pre
\* C11: nothing forbidden gets in; a rejected single-element operation changes nothing
C11_NoForbiddenIn == ph = 1 => ~Forbidden(out.val, Fam)
C11_RejectedSingleUnchanged ==
  Raised /\ out.ret.e = "Rejected" /\ lab.op \notin {"update", "reset"} => out.val = pre
C11_ForbiddenArgRejected ==
  ph = 1 /\ lab.op \in {"setitem", "append", "insert", "extend", "iadd", "setslice", "update", "reset"}
    /\ "x" \in DOMAIN lab /\ Forbidden(lab.x, Fam)
    /\ ~(lab.op \in {"update", "reset"} /\ ~IsC(lab.x))
    /\ ~(lab.op = "reset" /\ lab.x.t # Kind)
  => Raised /\ out.ret.e = "Rejected"
KindKept == out.val.t = Kind
\* sanity of the catalogue: what was stored can be read back
SetThenGet ==
  ph = 1 /\ lab.op = "setitem" /\ ~IsErr(out.ret) =>
    IF Kind = "d" THEN out.val.m[lab.k] = lab.x
    ELSE out.val.s[NormIdx(lab.i, Len(pre.s)) + 1] = lab.x
LenConsistent ==
  ph = 1 /\ lab.op \in {"append", "insert"} /\ ~IsErr(out.ret) => Len(out.val.s) = Len(pre.s) + 1
=============================================================================
