--------------------------------- MODULE DictOrder ---------------------------------
(***************************************************************************)
(* KEY ORDER of dict-like collections (C03: "results equal those of the    *)
(* built-in dict" includes the order of iteration and which item popitem   *)
(* removes).  PyOps/JsonValue model a dict as a function, so order is      *)
(* invisible there; this module models nothing BUT the order: the state is *)
(* the sequence of keys as the collection holds them.                      *)
(*                                                                         *)
(* Built-in semantics (CPython >= 3.7): a new key is appended, an existing *)
(* key keeps its position, popitem removes the LAST key, update / kwargs   *)
(* insert in argument order.                                               *)
(* Mechanism facts stated here because they decide the order after a       *)
(* reload: the in-place merge (reset(), and every load after an outside    *)
(* write) keeps the surviving keys in THEIR OLD order and appends the new  *)
(* ones in the order of the incoming data; a save writes the keys in       *)
(* memory order (file = ord after every mutator).                          *)
(***************************************************************************)
EXTENDS Naturals, Sequences, FiniteSets, TLC
CONSTANTS Keys, MaxOps
VARIABLES ord,      \* keys in the order the collection holds them
          file,     \* keys in the order they are in the resource
          last, n
ovars == <<ord, file, last, n>>

Range(s) == {s[i] : i \in 1..Len(s)}
Without(s, k) == SelectSeq(s, LAMBDA x : x # k)
Put(s, k) == IF k \in Range(s) THEN s ELSE Append(s, k)
RECURSIVE PutAll(_, _)
PutAll(s, ks) == IF ks = <<>> THEN s ELSE PutAll(Put(s, Head(ks)), Tail(ks))
\* sequences of distinct keys
Orders == UNION {{s \in [1..m -> Keys] : \A i, j \in 1..m : i # j => s[i] # s[j]} : m \in 0..Cardinality(Keys)}
\* the in-place merge of incoming data (keys in order `new') into a collection holding `old'
Merge(old, new) == PutAll(SelectSeq(old, LAMBDA x : x \in Range(new)), new)

R(op, arg, ret) == [op |-> op, arg |-> arg, ret |-> ret]
Init == \E s \in Orders : ord = s /\ file = s /\ last = R("init", <<>>, <<>>) /\ n = 0

Mut(o2, l) == ord' = o2 /\ file' = o2 /\ last' = l /\ n' = n + 1
SetItem(k) == Mut(Put(ord, k), R("setitem", <<k>>, <<>>))
SetDefault(k) == Mut(Put(ord, k), R("setdefault", <<k>>, <<>>))
DelItem(k) == k \in Range(ord) /\ Mut(Without(ord, k), R("delitem", <<k>>, <<>>))
Pop(k) == k \in Range(ord) /\ Mut(Without(ord, k), R("pop", <<k>>, <<>>))
PopItem == ord # <<>> /\ Mut(SubSeq(ord, 1, Len(ord) - 1), R("popitem", <<>>, <<ord[Len(ord)]>>))
Update(ks) == Mut(PutAll(ord, ks), R("update", ks, <<>>))
Clear == Mut(<<>>, R("clear", <<>>, <<>>))
Reset(ks) == Mut(Merge(ord, ks), R("reset", ks, <<>>))
\* iteration: keys in memory order (after the load, which is the identity here: the file holds the same order)
Iter == UNCHANGED <<ord, file>> /\ last' = R("iter", <<>>, ord) /\ n' = n + 1
\* another program rewrites the resource with the keys ks (any order); the next access merges
Ext(ks) == ks # file /\ file' = ks /\ ord' = Merge(ord, ks) /\ last' = R("ext", ks, <<>>) /\ n' = n + 1

Next == /\ n < MaxOps
        /\ \/ \E k \in Keys : SetItem(k) \/ SetDefault(k) \/ DelItem(k) \/ Pop(k)
           \/ PopItem \/ Clear \/ Iter
           \/ \E ks \in Orders : Update(ks) \/ Reset(ks) \/ Ext(ks)

\* sanity: the collection never holds a key twice, and it holds exactly the keys of the resource
NoDuplicates == \A i, j \in 1..Len(ord) : i # j => ord[i] # ord[j]
SameKeys == Range(ord) = Range(file)
\* every mutator leaves the resource with the keys in the order the collection holds them (stated on the edge: the
\* history variable `last' is hidden from the fingerprint in MC_DictOrder)
Mutators == {"setitem", "setdefault", "delitem", "pop", "popitem", "update", "clear", "reset"}
C03_FileOrderIsMemoryOrder == [][last'.op \in Mutators => file' = ord']_ovars
=============================================================================
