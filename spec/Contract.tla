------------------------------- MODULE Contract -------------------------------
(***************************************************************************)
(* Level 1: what a user of UNBUFFERED synced collections may rely on, for  *)
(* sequential histories over several handles on ONE resource.              *)
(*                                                                         *)
(*   doc      the logical document held by the backend (a missing resource *)
(*            is the empty container of the root's kind)                   *)
(*   hd[h]    handles: 1..NObj are independent root objects bound to the   *)
(*            resource; the others are nested-child handles obtained by    *)
(*            navigation through one of those objects and retained         *)
(*                                                                         *)
(* Every public operation is one atomic step applied at the handle's path  *)
(* to the CURRENT document (C04), its effect is in the backend when it     *)
(* returns (C01), reads return the current content (C02) and change        *)
(* nothing (C17), results are those of Python's dict/list (C03, PyOps).    *)
(* Ext(v) is an outside writer replacing the resource.                     *)
(*                                                                         *)
(* Handle attachment (C02): a child handle stays attached while its path   *)
(* holds a container of the same kind and no operation THROUGH THE SAME    *)
(* OBJECT destroyed that position (PyOps!Destroys).  A handle that lost    *)
(* its guarantee is dropped from the model (nothing is asserted about it). *)
(***************************************************************************)
EXTENDS PyOps

CONSTANTS RootKind,   \* "d" | "l"
          Fam,        \* "json" | "attr"
          NObj,       \* number of root objects bound to the resource
          MaxH,       \* total number of handles (roots + retained children)
          TrackHist   \* TRUE: record the behaviour in hist (simulation); FALSE: keep hist empty

VARIABLES doc, hd, last, hist
vars == <<doc, hd, last, hist>>
view == <<doc, hd>>

Handles == 1..MaxH
Roots == 1..NObj
Dead == [live |-> FALSE, o |-> 0, p |-> <<>>, kd |-> ""]
RootHandle(o) == [live |-> TRUE, o |-> o, p |-> <<>>, kd |-> RootKind]

Target(h) == Get(doc, hd[h].p)

\* handles that survive a step: g is kept iff its position still holds a container of its kind
\* in newdoc and the step (through object o at path p, destroying D) did not destroy it
Survives(g, newdoc, o, p, DS) ==
  /\ hd[g].live
  /\ LET t == Get(newdoc, hd[g].p) IN t.t = hd[g].kd
  /\ ~( /\ hd[g].o = o
        /\ IsStrictPrefix(p, hd[g].p)
        /\ (DS.all \/ hd[g].p[Len(p) + 1] \in DS.steps) )

NoDestroy == [all |-> FALSE, steps |-> {}]

Record(l) == /\ last' = l
             /\ hist' = IF TrackHist THEN Append(hist, l) ELSE hist

\* one public operation through handle h
Do(h, o) ==
  /\ hd[h].live
  /\ LET sub == Target(h) IN
     \E r \in Apply(sub, o, Fam) :
       LET newdoc == IF IsRead(o.op) THEN doc ELSE Put(doc, hd[h].p, r.val)
           DS == IF IsRead(o.op) THEN NoDestroy ELSE Destroys(sub, o, r)
       IN /\ doc' = newdoc
          /\ hd' = [g \in Handles |->
                      IF g \in Roots THEN hd[g]
                      ELSE IF Survives(g, newdoc, hd[h].o, hd[h].p, DS) THEN hd[g] ELSE Dead]
          /\ Record([a |-> "do", h |-> h, op |-> o, ret |-> r.ret, doc |-> newdoc])

\* navigation: a read that returns a nested container; the caller keeps the child object
Nav(h, s, h2) ==
  /\ hd[h].live /\ h2 \notin Roots /\ ~hd[h2].live
  /\ HasStep(Target(h), s)
  /\ IsC(Child(Target(h), s))
  /\ \A g \in Handles : ~(hd[g].live /\ hd[g].o = hd[h].o /\ hd[g].p = hd[h].p \o <<s>>)
  /\ \A g \in Handles \ Roots : g < h2 => hd[g].live      \* canonical: lowest free slot
  /\ hd' = [hd EXCEPT ![h2] = [live |-> TRUE, o |-> hd[h].o, p |-> hd[h].p \o <<s>>,
                                kd |-> Child(Target(h), s).t]]
  /\ doc' = doc
  /\ Record([a |-> "nav", h |-> h, s |-> s, h2 |-> h2, doc |-> doc])

\* the user forgets a child handle
Drop(h) ==
  /\ h \notin Roots /\ hd[h].live
  /\ hd' = [hd EXCEPT ![h] = Dead]
  /\ doc' = doc
  /\ Record([a |-> "drop", h |-> h, doc |-> doc])

\* an outside writer replaces the whole resource
Ext(v) ==
  /\ v # doc
  /\ doc' = v
  /\ hd' = [g \in Handles |-> IF g \in Roots THEN hd[g]
                              ELSE IF Survives(g, v, 0, <<>>, NoDestroy) THEN hd[g] ELSE Dead]
  /\ Record([a |-> "ext", v |-> v, doc |-> v])

InitWith(d0) ==
  /\ doc = d0
  /\ hd = [h \in Handles |-> IF h \in Roots THEN RootHandle(h) ELSE Dead]
  /\ last = [a |-> "init", doc |-> d0]
  /\ hist = IF TrackHist THEN <<[a |-> "init", doc |-> d0]>> ELSE <<>>

(***************************************************************************)
(* Properties stated at this level.                                        *)
(***************************************************************************)
\* every live handle addresses a container of its kind (so every Do is well defined)
HandlesAttached == \A h \in Handles : hd[h].live => Target(h).t = hd[h].kd
RootKindKept == doc.t = RootKind
\* C11: nothing forbidden is ever in the document
C11_NothingForbidden == ~Forbidden(doc, Fam)
\* C17: reads (and navigation, and dropping a handle) never change the backend
C17_ReadsNeverWrite ==
  [][(last'.a = "do" /\ IsRead(last'.op.op)) \/ last'.a \in {"nav", "drop"} => doc' = doc]_vars
\* C03: an operation that raises leaves the content unchanged (bulk rejections excepted)
C03_RaisingChangesNothing ==
  [][last'.a = "do" /\ IsErr(last'.ret) /\ last'.op.op \notin {"update", "reset"} => doc' = doc]_vars
\* C04 (frame): an operation through handle h changes the document only at or below h's path
C04_Frame ==
  [][last'.a = "do" =>
       \A q \in ContainerPaths(doc) :
          (~IsPrefix(hd[last'.h].p, q) /\ ~IsPrefix(q, hd[last'.h].p)) => Get(doc', q) = Get(doc, q)]_vars
=============================================================================
