---------------------------------- MODULE Buffer ----------------------------------
(***************************************************************************)
(* Level 2: the buffering MECHANISM of file collections, one action per    *)
(* code block of buffers/*.py (C05, C06, C07, C15).  Documents are         *)
(* abstracted to sets of keys.                                             *)
(*                                                                         *)
(*   disk[r]      [doc, ver]           the file                            *)
(*   priv[o]      the object's own _data                                   *)
(*   shared[o]    shared-memory strategy: does o._data alias the store?    *)
(*   entry[r]     Class._buffer[filename]: [e, contents, base, ver0, mod]  *)
(*                (serialized: contents/base are the blob and the hash of  *)
(*                 the initial blob; memory: contents is the shared store) *)
(*   reg          Class._buffered_collections in registration order        *)
(*   stk, cap     open contexts (B = buffer_backend(cap), O = obj.buffered)*)
(*   gold[r]      what the user must see (history variable: Level 1)       *)
(*                                                                         *)
(* Deviation flags = what the pinned tree did before the fix commits; with *)
(* all flags FALSE the model is the repaired code and TLC must find the    *)
(* properties to hold; each flag alone must produce a witness, which the   *)
(* harness replays on the real classes (regression of the repaired defect).*)
(***************************************************************************)
EXTENDS Naturals, Sequences, FiniteSets, TLC, Json
CONSTANTS Strategy, Files, Objs, FileOf, Keys, Caps, BigCap, MaxNest,
          Dev_SerializedOwnData,      \* serialized _flush hashes the flushing object's own data
          Dev_MemFlushOwnData,        \* shared-memory _flush saves the flushing object's own data
          Dev_MemStoreNotFollow,      \* save-to-buffer does not re-point the entry at rebound data (clear lost)
          Dev_CapNotRestoredOnError,  \* capacity not restored when the exit flush raises
          Dev_LoseRegOnError,         \* still-buffered collections forgotten when a flush fails
          Dev_MemKeepConflictingCopy  \* forced flush keeps a conflicting copy, re-based on the outside version (before 506ba58)
VARIABLES disk, priv, shared, entry, reg, stk, cap, gold, last, hist,
          xd        \* xd[r]: an outside writer changed file r while the copy now in the buffer was buffered
bvars == <<disk, priv, shared, entry, reg, stk, cap, gold, last, hist, xd>>
bview == <<disk, priv, shared, entry, reg, stk, cap, gold, xd>>

Ser == Strategy = "serialized"
NoEntry == [e |-> FALSE, contents |-> {}, base |-> {}, ver0 |-> 0, mod |-> FALSE]
BFrame(capset, saved) == [k |-> "B", o |-> "", capset |-> capset, saved |-> saved]
OFrame(o) == [k |-> "O", o |-> o, capset |-> FALSE, saved |-> 0]
NONE == 99
OCtx(s, o) == Cardinality({i \in 1..Len(s) : s[i].k = "O" /\ s[i].o = o})
BCtx(s) == Cardinality({i \in 1..Len(s) : s[i].k = "B"})
BufferedIn(s, o) == OCtx(s, o) > 0 \/ BCtx(s) > 0
Buffered(o) == BufferedIn(stk, o)
ObjsOf(r) == {o \in Objs : FileOf[o] = r}
SameState(r) == \A a, b \in ObjsOf(r) : Buffered(a) = Buffered(b)
Blob(s) == 2 + 3 * Cardinality(s)                       \* abstract encoded length
RECURSIVE Sum(_)
Sum(f) == IF DOMAIN f = {} THEN 0 ELSE LET x == CHOOSE y \in DOMAIN f : TRUE IN f[x] + Sum([k \in DOMAIN f \ {x} |-> f[k]])
SizeOf(en) == IF Ser THEN Sum([r \in {q \in Files : en[q].e} |-> Blob(en[r].contents)])
              ELSE Cardinality({r \in Files : en[r].e /\ en[r].mod})
\* the data object o currently operates on
Data(o, pr, sh, en) == IF ~Ser /\ sh[o] /\ en[FileOf[o]].e THEN en[FileOf[o]].contents ELSE pr[o]

(***************************************************************************)
(* _flush of one object (returns the new components and whether it raised) *)
(***************************************************************************)
FlushObj(o, force, d, pr, sh, en, stack) ==
  LET r == FileOf[o]
      e == en[r]
      noop == [disk |-> d, priv |-> pr, shared |-> sh, entry |-> en, err |-> FALSE]
  IN IF Ser THEN
       IF BufferedIn(stack, o) /\ ~force THEN noop
       ELSE IF ~e.e THEN noop
       ELSE LET blob == IF Dev_SerializedOwnData THEN pr[o] ELSE e.contents
                changed == blob # e.base
                conflict == changed /\ e.ver0 # d[r].ver
                en2 == [en EXCEPT ![r] = NoEntry]
            IN IF conflict THEN [noop EXCEPT !.entry = en2, !.err = TRUE]
               ELSE IF changed THEN [disk |-> [d EXCEPT ![r] = [doc |-> e.contents, ver |-> @.ver + 1]],
                                     priv |-> [pr EXCEPT ![o] = e.contents], shared |-> sh, entry |-> en2, err |-> FALSE]
               ELSE [noop EXCEPT !.entry = en2]
     ELSE
       IF BufferedIn(stack, o) /\ ~force
         THEN [noop EXCEPT !.priv = [pr EXCEPT ![o] = Data(o, pr, sh, en)], !.shared = [sh EXCEPT ![o] = FALSE]]
       ELSE IF ~e.e
         THEN IF force THEN noop
              ELSE [noop EXCEPT !.priv = [pr EXCEPT ![o] = d[r].doc], !.shared = [sh EXCEPT ![o] = FALSE]]
       ELSE LET conflict == e.mod /\ e.ver0 # d[r].ver
                towrite == IF Dev_MemFlushOwnData THEN Data(o, pr, sh, en) ELSE e.contents
                d2 == IF e.mod /\ ~conflict THEN [d EXCEPT ![r] = [doc |-> towrite, ver |-> @.ver + 1]] ELSE d
                sh2 == IF e.mod /\ ~conflict /\ ~Dev_MemFlushOwnData THEN [sh EXCEPT ![o] = TRUE] ELSE sh
                evict == ~force \/ (conflict /\ ~Dev_MemKeepConflictingCopy)
                en2 == IF evict THEN [en EXCEPT ![r] = NoEntry]
                       ELSE [en EXCEPT ![r] = [e EXCEPT !.ver0 = d2[r].ver, !.mod = FALSE]]
                \* objects aliasing a dropped store keep its content as their own data
                pr2 == IF evict THEN [x \in Objs |-> IF FileOf[x] = r /\ sh2[x] THEN e.contents ELSE pr[x]] ELSE pr
                sh3 == IF evict THEN [x \in Objs |-> IF FileOf[x] = r THEN FALSE ELSE sh2[x]] ELSE sh2
            IN [disk |-> d2, priv |-> pr2, shared |-> sh3, entry |-> en2, err |-> conflict]

(***************************************************************************)
(* _flush_buffer: pop the registered collections last-registered first     *)
(***************************************************************************)
RECURSIVE FlushLoop(_, _, _, _)
\* st = [disk, priv, shared, entry, errs, remaining]
FlushLoop(todo, force, st, stack) ==
  IF todo = <<>> THEN st
  ELSE LET o == todo[Len(todo)]
           rest == SubSeq(todo, 1, Len(todo) - 1)
       IN IF BufferedIn(stack, o) /\ ~force
            THEN FlushLoop(rest, force, [st EXCEPT !.remaining = <<o>> \o @], stack)
          ELSE LET f == FlushObj(o, force, st.disk, st.priv, st.shared, st.entry, stack)
                   keep == force /\ ~Ser
               IN FlushLoop(rest, force,
                            [disk |-> f.disk, priv |-> f.priv, shared |-> f.shared, entry |-> f.entry,
                             errs |-> IF f.err THEN st.errs \cup {FileOf[o]} ELSE st.errs,
                             remaining |-> IF keep THEN <<o>> \o st.remaining ELSE st.remaining], stack)
FlushBuffer(force, d, pr, sh, en, rg, stack) ==
  LET st == FlushLoop(rg, force, [disk |-> d, priv |-> pr, shared |-> sh, entry |-> en, errs |-> {}, remaining |-> <<>>], stack)
  IN [st EXCEPT !.remaining = IF st.errs # {} /\ Dev_LoseRegOnError THEN <<>> ELSE st.remaining]
\* after a step: the capacity rule of _save_to_buffer / _load_from_buffer / set_buffer_capacity
Capacity(d, pr, sh, en, rg, c, stack) ==
  IF SizeOf(en) > c THEN FlushBuffer(TRUE, d, pr, sh, en, rg, stack)
  ELSE [disk |-> d, priv |-> pr, shared |-> sh, entry |-> en, errs |-> {}, remaining |-> rg]
Register(rg, o) == IF \E i \in 1..Len(rg) : rg[i] = o THEN rg ELSE Append(rg, o)

(***************************************************************************)
(* Operations.  kind \in {"read", "add", "del", "clear"}                   *)
(***************************************************************************)
\* what a conflict made the buffer give up is no longer part of the logical document
\* (once a copy has left the buffer the user sees the file again)
GoldAfter(g, errs, en2, d2) == [r \in Files |-> IF ~en2[r].e THEN d2[r].doc ELSE g[r]]
ApplyOp(s, kind, k) == CASE kind = "add" -> s \cup {k} [] kind = "del" -> s \ {k} [] kind = "clear" -> {} [] OTHER -> s
Log(l) == last' = l /\ hist' = Append(hist, l)
\* once a copy has left the buffer, what happened to the file before is no longer its business
XdAfter == xd' = [r \in Files |-> IF entry'[r].e THEN xd[r] ELSE FALSE]

OpUnbuffered(o, kind, k) ==
  LET r == FileOf[o]
      s2 == ApplyOp(disk[r].doc, kind, k)
  IN /\ priv' = [priv EXCEPT ![o] = IF kind = "read" THEN disk[r].doc ELSE s2]
     /\ disk' = IF kind = "read" THEN disk ELSE [disk EXCEPT ![r] = [doc |-> s2, ver |-> @.ver + 1]]
     /\ gold' = IF kind = "read" THEN gold ELSE [gold EXCEPT ![r] = s2]
     /\ Log([a |-> "op", o |-> o, kind |-> kind, k |-> k, ret |-> disk[r].doc, raised |-> {}])
     /\ UNCHANGED <<shared, entry, reg, stk, cap, xd>>

OpBuffered(o, kind, k) ==
  LET r == FileOf[o]
      loads == kind # "clear"                 \* root clear() does not load
      miss == ~entry[r].e
      \* ---- _load_from_buffer
      pr1 == IF loads /\ miss THEN [priv EXCEPT ![o] = disk[r].doc] ELSE priv
      en1 == IF loads /\ miss
               THEN [entry EXCEPT ![r] = [e |-> TRUE, contents |-> disk[r].doc, base |-> disk[r].doc, ver0 |-> disk[r].ver, mod |-> FALSE]]
               ELSE entry
      pr1b == IF loads /\ Ser THEN [pr1 EXCEPT ![o] = en1[r].contents] ELSE pr1
      sh1 == IF loads /\ ~Ser THEN [shared EXCEPT ![o] = TRUE] ELSE shared
      rg1 == IF loads THEN Register(reg, o) ELSE reg
      c1 == IF loads /\ Ser THEN Capacity(disk, pr1b, sh1, en1, rg1, cap, stk)
            ELSE [disk |-> disk, priv |-> pr1b, shared |-> sh1, entry |-> en1, errs |-> {}, remaining |-> rg1]
      seen == IF loads THEN (IF Ser THEN pr1b[o] ELSE Data(o, pr1b, sh1, en1)) ELSE {}
  IN IF c1.errs # {} \/ kind = "read"
       THEN /\ disk' = c1.disk /\ priv' = c1.priv /\ shared' = c1.shared /\ entry' = c1.entry /\ reg' = c1.remaining
            /\ gold' = GoldAfter(gold, c1.errs, c1.entry, c1.disk)
            /\ Log([a |-> "op", o |-> o, kind |-> kind, k |-> k, ret |-> seen, raised |-> c1.errs])
            /\ XdAfter /\ UNCHANGED <<stk, cap>>
       ELSE \* ---- mutate, then _save_to_buffer
            LET cur == IF loads THEN (IF Ser THEN c1.priv[o] ELSE Data(o, c1.priv, c1.shared, c1.entry)) ELSE {}
                newdoc == ApplyOp(cur, kind, k)
                inplace == ~Ser /\ c1.shared[o] /\ c1.entry[r].e /\ kind # "clear"
                pr2 == IF inplace THEN c1.priv ELSE [c1.priv EXCEPT ![o] = newdoc]
                sh2 == IF kind = "clear" THEN [c1.shared EXCEPT ![o] = FALSE] ELSE c1.shared    \* _data rebound
                en2a == IF inplace THEN [c1.entry EXCEPT ![r].contents = newdoc] ELSE c1.entry
                rg2 == Register(c1.remaining, o)
                en2 == IF en2a[r].e
                         THEN IF Ser THEN [en2a EXCEPT ![r].contents = pr2[o]]
                              ELSE [en2a EXCEPT ![r].mod = TRUE,
                                                ![r].contents = IF Dev_MemStoreNotFollow THEN @ ELSE Data(o, pr2, sh2, en2a)]
                         ELSE [en2a EXCEPT ![r] = [e |-> TRUE, contents |-> pr2[o], base |-> c1.disk[r].doc,
                                                   ver0 |-> c1.disk[r].ver, mod |-> TRUE]]
                sh3 == IF ~Ser /\ ~Dev_MemStoreNotFollow THEN [sh2 EXCEPT ![o] = TRUE] ELSE sh2
                c2 == Capacity(c1.disk, pr2, sh3, en2, rg2, cap, stk)
            IN /\ disk' = c2.disk /\ priv' = c2.priv /\ shared' = c2.shared /\ entry' = c2.entry /\ reg' = c2.remaining
               /\ gold' = GoldAfter([gold EXCEPT ![r] = newdoc], c2.errs, c2.entry, c2.disk)
               /\ Log([a |-> "op", o |-> o, kind |-> kind, k |-> k, ret |-> seen, raised |-> c2.errs])
               /\ XdAfter /\ UNCHANGED <<stk, cap>>

Op(o, kind, k) == SameState(FileOf[o]) /\ IF Buffered(o) THEN OpBuffered(o, kind, k) ELSE OpUnbuffered(o, kind, k)

EnterObj(o) == /\ stk' = Append(stk, OFrame(o)) /\ Log([a |-> "enterO", o |-> o])
               /\ UNCHANGED <<disk, priv, shared, entry, reg, cap, gold, xd>>
EnterBackend(c) ==
  LET c2 == IF c = NONE THEN cap ELSE c
      x == Capacity(disk, priv, shared, entry, reg, c2, stk)
  IN /\ stk' = Append(stk, BFrame(c # NONE, cap)) /\ cap' = c2
     /\ disk' = x.disk /\ priv' = x.priv /\ shared' = x.shared /\ entry' = x.entry /\ reg' = x.remaining
     /\ gold' = GoldAfter(gold, x.errs, x.entry, x.disk) /\ Log([a |-> "enterB", c |-> c, raised |-> x.errs])
     /\ XdAfter
SetCapacity(c) ==
  LET x == Capacity(disk, priv, shared, entry, reg, c, stk)
  IN /\ cap' = c /\ disk' = x.disk /\ priv' = x.priv /\ shared' = x.shared /\ entry' = x.entry /\ reg' = x.remaining
     /\ gold' = GoldAfter(gold, x.errs, x.entry, x.disk)
     /\ Log([a |-> "setcap", c |-> c, raised |-> x.errs]) /\ XdAfter /\ UNCHANGED stk
ExitTop ==
  /\ stk # <<>>
  /\ LET fr == stk[Len(stk)]
         s2 == SubSeq(stk, 1, Len(stk) - 1)
         \* obj.buffered exit: the object's own _flush; buffer_backend exit: _flush_buffer when the count hits zero
         x == IF fr.k = "O"
                THEN IF OCtx(s2, fr.o) = 0
                       THEN LET f == FlushObj(fr.o, FALSE, disk, priv, shared, entry, s2)
                            IN [disk |-> f.disk, priv |-> f.priv, shared |-> f.shared, entry |-> f.entry,
                                errs |-> IF f.err THEN {FileOf[fr.o]} ELSE {}, remaining |-> reg]
                       ELSE [disk |-> disk, priv |-> priv, shared |-> shared, entry |-> entry, errs |-> {}, remaining |-> reg]
                ELSE IF BCtx(s2) = 0 THEN FlushBuffer(FALSE, disk, priv, shared, entry, reg, s2)
                     ELSE [disk |-> disk, priv |-> priv, shared |-> shared, entry |-> entry, errs |-> {}, remaining |-> reg]
         restore == fr.k = "B" /\ fr.capset /\ ~(x.errs # {} /\ Dev_CapNotRestoredOnError)
         c2 == IF restore THEN fr.saved ELSE cap
         y == IF restore THEN Capacity(x.disk, x.priv, x.shared, x.entry, x.remaining, c2, s2)
              ELSE [x EXCEPT !.errs = {}]
     IN /\ stk' = s2 /\ cap' = c2
        /\ disk' = y.disk /\ priv' = y.priv /\ shared' = y.shared /\ entry' = y.entry /\ reg' = y.remaining
        \* what was not written because of a conflict is given up: the user sees the file again
        /\ gold' = GoldAfter(gold, x.errs \cup y.errs, y.entry, y.disk)
        /\ Log([a |-> "exit", raised |-> x.errs \cup y.errs]) /\ XdAfter
External(r, s) ==
  /\ disk' = [disk EXCEPT ![r] = [doc |-> s, ver |-> @.ver + 1]]
  /\ gold' = IF entry[r].e THEN gold ELSE [gold EXCEPT ![r] = s]
  /\ Log([a |-> "ext", r |-> r, s |-> s])
  /\ xd' = [xd EXCEPT ![r] = entry[r].e]
  /\ UNCHANGED <<priv, shared, entry, reg, stk, cap>>

Init == /\ disk \in [Files -> {[doc |-> s, ver |-> 0] : s \in {{}, {"a"}}}]
        /\ priv = [o \in Objs |-> {}] /\ shared = [o \in Objs |-> FALSE]
        /\ entry = [r \in Files |-> NoEntry] /\ reg = <<>> /\ stk = <<>> /\ cap = BigCap
        /\ gold = [r \in Files |-> disk[r].doc]
        /\ last = [a |-> "init"] /\ hist = <<[a |-> "init", disk |-> disk]>>
        /\ xd = [r \in Files |-> FALSE]

\* objects of one file enter / leave obj.buffered together (see MC_BufContract): simplified here to
\* "an O frame may only be pushed for all objects of the file in a row" by allowing ops only in SameState
Next ==
  \/ \E o \in Objs, kind \in {"read", "add", "del", "clear"}, k \in Keys : Op(o, kind, k)
  \/ \E o \in Objs : Len(stk) < MaxNest /\ OCtx(stk, o) = 0 /\ EnterObj(o)
  \/ \E c \in Caps \cup {NONE} : Len(stk) < MaxNest /\ EnterBackend(c)
  \/ \E c \in Caps : SetCapacity(c)
  \/ ExitTop
  \/ \E r \in Files, s \in {{}, {"b"}} : s # disk[r].doc /\ disk[r].ver < 3 /\ External(r, s)

(***************************************************************************)
(* Properties (the Level-1 contract, stated on the mechanism)              *)
(***************************************************************************)
Conflict(r) == entry[r].e /\ entry[r].ver0 # disk[r].ver
NoConflictEver == \A i \in 1..Len(hist) : hist[i].a # "ext"
\* C05 / C06: every operation sees the logical document (all earlier writes through any object)
C05_Transparent == [][last'.a = "op" /\ last'.raised = {} /\ last'.kind # "clear" => last'.ret = gold[FileOf[last'.o]]]_bvars
\* C05 / C06: when a changed, non-conflicting copy leaves the buffer its content is in the file (nothing lost), and
\* while it is buffered its content is the logical document
Changed(e) == IF Ser THEN e.contents # e.base ELSE e.mod
C06_FlushWrites ==
  [][\A r \in Files : (last'.a # "ext" /\ entry[r].e /\ ~entry'[r].e /\ Changed(entry[r]) /\ entry[r].ver0 = disk[r].ver)
        => disk'[r].doc = (IF last'.a = "op" /\ FileOf[last'.o] = r /\ last'.kind # "read"
                              THEN ApplyOp(gold[r], last'.kind, last'.k) ELSE gold[r])]_bvars
C06_BufferHoldsGold == \A r \in Files : entry[r].e => entry[r].contents = gold[r]
\* C07: a modified conflicting copy never overwrites the outside writer's content
C07_NoSilentOverwrite ==
  [][\A r \in Files : (last'.a # "ext" /\ Conflict(r) /\ (IF Ser THEN entry[r].contents # entry[r].base ELSE entry[r].mod)
                       /\ ~(last'.a = "op" /\ ~Buffered(last'.o)))
        => disk'[r] = disk[r]]_bvars
\* C07 (strong form): while a copy that was buffered when an outside writer changed the file is still in the buffer,
\* the library never writes that file - not at this flush and not at any later one
C07_OutsideChangeSurvives == [][\A r \in Files : (last'.a # "ext" /\ xd[r]) => disk'[r] = disk[r]]_bvars
\* C15: outside all contexts the buffer is empty; the size respects the capacity; the capacity is restored
C15_EmptyOutside == stk = <<>> => (\A r \in Files : ~entry[r].e)     \* (stale registrations may remain: harmless)
C15_WithinCapacity == SizeOf(entry) <= cap \/ last.a = "ext"
C15_CapacityRestored == stk = <<>> /\ (\A i \in 1..Len(hist) : hist[i].a # "setcap") => cap = BigCap
\* C17 / C07: copies that were only read are never written
C17_ReadOnlyNeverWritten ==
  [][(last'.a \in {"exit", "enterB", "setcap"} \/ (last'.a = "op" /\ last'.kind = "read"))
       => \A r \in Files : (entry[r].e /\ (IF Ser THEN entry[r].contents = entry[r].base ELSE ~entry[r].mod))
                           => disk'[r] = disk[r]]_bvars
ExportHist == PrintT("BHIST " \o ToJson(hist))
=============================================================================
