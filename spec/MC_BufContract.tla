----------------------------- MODULE MC_BufContract -----------------------------
(***************************************************************************)
(* Bounded instances of BufContract.tla.  TLC checks the Level-1           *)
(* properties and generates behaviours; only their INPUTS (operations,     *)
(* context entries/exits, capacity changes, outside writes) are exported.  *)
(* The harness executes the inputs on the real classes, records what it    *)
(* observes, and TraceBuf.tla decides whether the recorded execution is a  *)
(* behaviour of BufContract.                                               *)
(***************************************************************************)
EXTENDS BufContract, Json
CONSTANTS Scen,      \* "one" {A} | "shared" {A,B on f1} | "two" {A on f1, C on f2} | "multi" {A,B on f1, C on f2}
          Inst,      \* "tiny" (exhaustive BFS) | "full" (simulation)
          HistLen, SampleK, MaxNest
VARIABLES hist,
          grp       \* objects bound to one file enter / leave obj.buffered TOGETHER (C06's "common buffered
                    \* state"): grp = [m |-> "enter", left |-> objects still to enter] or
                    \* [m |-> "exit", left |-> number of frames still to pop] or NoGrp
mvars == <<file, buf, stk, cap, last, hist, grp>>
mview == <<file, buf, stk, cap, grp>>
NoGrp == [m |-> "", left |-> {}, n |-> 0]

MCFiles == IF Scen \in {"multi", "two"} THEN {"f1", "f2"} ELSE {"f1"}
MCObjs == CASE Scen = "one" -> {"A"} [] Scen = "shared" -> {"A", "B"} [] Scen = "two" -> {"A", "C"}
            [] OTHER -> {"A", "B", "C"}
MCFileOf == [o \in MCObjs |-> IF o = "C" THEN "f2" ELSE "f1"]

Doc1 == IF Kind = "d" THEN D([a |-> S("i1")]) ELSE L(<<S("i1")>>)
Doc2 == IF Kind = "d" THEN D([a |-> S("i2"), b |-> L(<<S("n")>>)]) ELSE L(<<S("i2"), D([a |-> S("n")])>>)
Doc3 == IF Kind = "d" THEN D([b |-> S("i1")]) ELSE L(<<S("n"), S("i1")>>)
Micro == Inst = "micro"                     \* smallest instance: exhaustive BFS for the 2-file scenarios
Tiny == Inst \in {"tiny", "micro"}
InitDocs == IF Micro THEN {Doc1} ELSE IF Tiny THEN {Empty, Doc1} ELSE {Empty, Doc1, Doc2}
ExtDocs == IF Tiny THEN {Doc3} ELSE {Empty, Doc1, Doc3}

Caps == IF Tiny THEN (IF Strategy = "serialized" THEN {12, 100000} ELSE {0, 1000})
        ELSE IF Strategy = "serialized" THEN {0, 12, 40, 100000} ELSE {0, 1, 1000}
DefaultCap == IF Strategy = "serialized" THEN 100000 ELSE 1000

TinyOps == IF Micro THEN {"call", "setitem", "clear", "append"}
           ELSE {"getitem", "call", "setitem", "clear", "reset", "append", "pop", "delitem"}
FullMenu ==
  IF Kind = "d"
    THEN {[op |-> "getitem", k |-> "a"], [op |-> "call"], [op |-> "len"], [op |-> "contains", k |-> "b"],
          [op |-> "get", k |-> "b", y |-> Null], [op |-> "keys"], [op |-> "items"],
          [op |-> "setitem", k |-> "a", x |-> S("i1")], [op |-> "setitem", k |-> "a", x |-> S("i2")],
          [op |-> "setitem", k |-> "b", x |-> D([a |-> S("i1")])], [op |-> "delitem", k |-> "a"],
          [op |-> "pop", k |-> "b", y |-> Null], [op |-> "popitem"], [op |-> "clear"],
          [op |-> "reset", x |-> D([a |-> S("i2")])], [op |-> "reset", x |-> EmptyD],
          [op |-> "update", x |-> D([b |-> S("i1")])], [op |-> "setdefault", k |-> "a", y |-> S("n")],
          [op |-> "setdefault", k |-> "c", y |-> L(<<>>)]}
    ELSE {[op |-> "getitem", i |-> 0], [op |-> "call"], [op |-> "len"], [op |-> "contains", x |-> S("i1")],
          [op |-> "iter"], [op |-> "getitem", i |-> -1],
          [op |-> "append", x |-> S("i1")], [op |-> "append", x |-> D([a |-> S("i2")])],
          [op |-> "setitem", i |-> 0, x |-> S("i2")], [op |-> "delitem", i |-> 0], [op |-> "pop", i |-> NONE],
          [op |-> "insert", i |-> 0, x |-> S("n")], [op |-> "extend", x |-> L(<<S("i1"), S("i2")>>)],
          [op |-> "iadd", x |-> L(<<S("n")>>)], [op |-> "remove", x |-> S("i1")], [op |-> "reverse"],
          [op |-> "clear"], [op |-> "reset", x |-> L(<<S("i2")>>)], [op |-> "reset", x |-> EmptyL]}

Menu == IF Tiny THEN {o \in FullMenu : o.op \in TinyOps /\ (o.op = "setitem" => (o.x = S("i2") \/ (~Micro /\ "k" \in DOMAIN o /\ o.k = "b")))
                                          /\ (o.op = "reset" => o.x # Empty) /\ (o.op = "getitem" => "k" \in DOMAIN o \/ o.i = 0)
                                          /\ (o.op = "append" => o.x = S("i1"))}
        ELSE FullMenu

RECURSIVE DocOK(_)
DocOK(v) == IF IsL(v) THEN Len(v.s) <= (IF Micro THEN 1 ELSE IF Tiny THEN 2 ELSE 3) /\ \A i \in 1..Len(v.s) : DocOK(v.s[i])
            ELSE IF IsD(v) THEN \A k \in DOMAIN v.m : DocOK(v.m[k]) ELSE TRUE
Bounded == /\ Len(stk) <= MaxNest
           /\ \A r \in Files : DocOK(file[r].doc) /\ Depth(file[r].doc) <= 3 /\ file[r].ver <= (IF Micro THEN 2 ELSE IF Tiny THEN 3 ELSE 8)
           /\ \A r \in Files : buf[r].e => DocOK(buf[r].doc) /\ Depth(buf[r].doc) <= 3

InputOf(l) == CASE l.a = "op" -> [a |-> "op", o |-> l.o, op |-> l.op]
                [] l.a = "enterO" -> [a |-> "enterO", o |-> l.o]
                [] l.a = "enterB" -> [a |-> "enterB", c |-> l.c]
                [] l.a = "setcap" -> [a |-> "setcap", c |-> l.c]
                [] l.a \in {"exitB", "exitO"} -> [a |-> "exit"]
                [] l.a = "ext" -> [a |-> "ext", r |-> l.r, v |-> l.v]

MCInit == /\ \E docs \in [Files -> InitDocs] :
               \E ex \in [Files -> BOOLEAN] :
                 /\ \A r \in Files : ~ex[r] => docs[r] = Empty
                 /\ InitWith(docs, ex, DefaultCap)
                 /\ hist = <<[a |-> "init", docs |-> docs, ex |-> ex]>>
                 /\ grp = NoGrp

\* reverse() is the one multi-step mixin mutator: interrupted by a BufferedError it is partially applied,
\* which no property speaks about - it is not issued while a buffered copy conflicts with its file
Free == grp = NoGrp
OpAny == \E o \in Objs, op \in Menu :
           /\ Free
           /\ op.op = "reverse" => /\ \A r \in Files : ~(buf[r].e /\ file[r].ver # buf[r].ver0)
                                    /\ cap >= DefaultCap    \* and no capacity-forced flush in its middle
           /\ Op(o, op)
           /\ grp' = grp
\* start entering the objects of one file, or continue a started group
EnterObjAny ==
  \/ /\ Free
     /\ \E o \in Objs : /\ OCtxIn(stk, o) < 2
                        /\ EnterObj(o)
                        /\ grp' = IF ObjsOf(FileOf[o]) = {o} THEN NoGrp
                                  ELSE [m |-> "enter", left |-> ObjsOf(FileOf[o]) \ {o}, n |-> 0]
  \/ /\ grp.m = "enter"
     /\ \E o \in grp.left : /\ EnterObj(o)
                            /\ grp' = IF grp.left = {o} THEN NoGrp ELSE [grp EXCEPT !.left = @ \ {o}]
EnterBackendAny == Free /\ (\E c \in Caps \cup {NONE} : EnterBackend(c)) /\ grp' = grp
SetCapAny == Free /\ (\E c \in Caps : SetCapacity(c)) /\ grp' = grp
ExternalAny == Free /\ (\E r \in Files, v \in ExtDocs : v # file[r].doc /\ External(r, v)) /\ grp' = grp
\* leaving: an "O" frame on top starts (or continues) popping the whole group of its file
ExitAny ==
  /\ stk # <<>>
  /\ grp.m # "enter"
  /\ ExitTop
  /\ LET fr == stk[Len(stk)] IN
     IF fr.k = "B" THEN grp' = grp
     ELSE IF grp.m = "exit" THEN grp' = IF grp.n = 1 THEN NoGrp ELSE [grp EXCEPT !.n = @ - 1]
     ELSE LET k == Cardinality(ObjsOf(FileOf[fr.o])) IN
          grp' = IF k = 1 THEN NoGrp ELSE [m |-> "exit", left |-> {}, n |-> k - 1]
H == hist' = Append(hist, InputOf(last'))
MCNext == \/ OpAny /\ H
          \/ EnterObjAny /\ H
          \/ EnterBackendAny /\ H
          \/ SetCapAny /\ H
          \/ ExitAny /\ H
          \/ ExternalAny /\ H

ExportHist == Len(hist) = HistLen + 1 => PrintT("HIST " \o ToJson(hist))
ExportPath == LET k == IF last'.a = "op" /\ IsRead(last'.op.op) THEN 3 * SampleK ELSE SampleK
              IN (k <= 1 \/ RandomElement(1..k) = 1) => PrintT("HIST " \o ToJson(hist'))
=============================================================================
