-------------------------------- MODULE PyOps --------------------------------
(***************************************************************************)
(* The public operation catalogue of dict-like and list-like synced        *)
(* collections with the semantics of Python's built-in dict / list         *)
(* (collections.abc mixin methods included), plus the documented           *)
(* deviations:                                                             *)
(*   - forbidden keys / values are rejected (ret = Err("Rejected"): a      *)
(*     TypeError or ValueError subclass); a rejected single-element        *)
(*     operation changes nothing;                                          *)
(*   - dict pop() of a missing key returns the default (None);             *)
(*   - dicts are unordered here: popitem() may return any item, iteration  *)
(*     results are compared as sets / bags;                                *)
(*   - tuples / bytes are stored as lists (a concretisation matter).       *)
(*                                                                         *)
(* Apply(v, o, fam) is the SET of allowed outcomes [val, ret] of           *)
(* operation o (a record with field op and its arguments) on container     *)
(* value v.  It is a singleton except for popitem and rejected bulk ops.   *)
(***************************************************************************)
EXTENDS JsonValue

NONE == 99   \* "argument not given" / None for slice parts and optional ints

Out(val, ret) == {[val |-> val, ret |-> ret]}

DSet(f, k, x) == [kk \in DOMAIN f \cup {k} |-> IF kk = k THEN x ELSE f[kk]]
DDel(f, k) == [kk \in DOMAIN f \ {k} |-> f[kk]]
DMerge(f, g) == [kk \in DOMAIN f \cup DOMAIN g |-> IF kk \in DOMAIN g THEN g[kk] ELSE f[kk]]
DRestrict(g, ks) == [kk \in ks |-> g[kk]]

ReadOps == {"getitem", "getslice", "contains", "len", "iter", "keys", "values", "items",
            "get", "eq", "ne", "lt", "le", "gt", "ge", "call", "reversed", "index",
            "count", "repr"}
IsRead(op) == op \in ReadOps

\* keys of g that may be merged without letting forbidden data in
OkKeys(g, fam) == {k \in DOMAIN g : ~ForbiddenKey(k, fam) /\ ~Forbidden(g[k], fam)}

DictApply(d, o, fam) ==
  LET f == d.m
      dom == DOMAIN d.m
  IN CASE o.op = "getitem" -> Out(d, IF o.k \in dom THEN f[o.k] ELSE Err("KeyError"))
       [] o.op = "setitem" ->
            IF ForbiddenKey(o.k, fam) \/ Forbidden(o.x, fam) THEN Out(d, Err("Rejected"))
            ELSE Out(D(DSet(f, o.k, o.x)), Null)
       [] o.op = "delitem" ->
            IF o.k \in dom THEN Out(D(DDel(f, o.k)), Null) ELSE Out(d, Err("KeyError"))
       [] o.op = "contains" -> Out(d, Bool(o.k \in dom))
       [] o.op = "len" -> Out(d, IntV(Cardinality(dom)))
       [] o.op \in {"iter", "keys"} -> Out(d, [t |-> "keys", ks |-> dom])
       [] o.op = "values" -> Out(d, [t |-> "bag", m |-> f])
       [] o.op = "items" -> Out(d, [t |-> "items", m |-> f])
       [] o.op = "get" -> Out(d, IF o.k \in dom THEN f[o.k] ELSE o.y)
       [] o.op = "pop" ->
            IF o.k \in dom THEN Out(D(DDel(f, o.k)), f[o.k]) ELSE Out(d, o.y)
       [] o.op = "popitem" ->
            IF dom = {} THEN Out(d, Err("KeyError"))
            ELSE {[val |-> D(DDel(f, k)), ret |-> L(<<StrV(k), f[k]>>)] : k \in dom}
       [] o.op = "clear" -> Out(EmptyD, Null)
       [] o.op = "update" ->
            IF ~IsD(o.x) THEN Out(d, Err("TypeError"))
            ELSE IF Forbidden(o.x, fam)
              THEN {[val |-> D(DMerge(f, DRestrict(o.x.m, ks))), ret |-> Err("Rejected")]
                      : ks \in SUBSET OkKeys(o.x.m, fam)}
            ELSE Out(D(DMerge(f, o.x.m)), Null)
       [] o.op = "setdefault" ->
            IF o.k \in dom THEN Out(d, f[o.k])
            ELSE IF ForbiddenKey(o.k, fam) \/ Forbidden(o.y, fam) THEN Out(d, Err("Rejected"))
            ELSE Out(D(DSet(f, o.k, o.y)), o.y)
       [] o.op = "eq" -> Out(d, Bool(PyEq(d, o.x)))
       [] o.op = "ne" -> Out(d, Bool(~PyEq(d, o.x)))
       [] o.op = "reset" ->
            IF ~IsD(o.x) THEN Out(d, Err("ValueError"))
            ELSE IF Forbidden(o.x, fam)
              THEN {[val |-> D(DMerge(f, DRestrict(o.x.m, ks))), ret |-> Err("Rejected")]
                      : ks \in SUBSET OkKeys(o.x.m, fam)}
            ELSE Out(o.x, Null)
       [] o.op = "call" -> Out(d, d)

(***************************************************************************)
(* list helpers (0-based Python indices on 1-based TLA+ sequences)         *)
(***************************************************************************)
Min2(a, b) == IF a < b THEN a ELSE b
NormIdx(i, n) == IF i < 0 THEN i + n ELSE i          \* may still be out of range
InRange(i, n) == 0 <= NormIdx(i, n) /\ NormIdx(i, n) < n
RemoveAt(s, i0) == [m \in 1..(Len(s) - 1) |-> IF m <= i0 THEN s[m] ELSE s[m + 1]]
InsertAt(s, i0, x) == [m \in 1..(Len(s) + 1) |->
                         IF m <= i0 THEN s[m] ELSE IF m = i0 + 1 THEN x ELSE s[m - 1]]
SetAt(s, i0, x) == [s EXCEPT ![i0 + 1] = x]
Rev(s) == [m \in 1..Len(s) |-> s[Len(s) + 1 - m]]
ClampIns(i, n) == IF i < 0 THEN Max2(0, n + i) ELSE Min2(i, n)

\* slice.indices(n): [start, stop, step]
SliceParts(i, j, st, n) ==
  LET step == IF st = NONE THEN 1 ELSE st
      lower == IF step > 0 THEN 0 ELSE -1
      upper == IF step > 0 THEN n ELSE n - 1
      start == IF i = NONE THEN (IF step > 0 THEN lower ELSE upper)
               ELSE IF i < 0 THEN Max2(i + n, lower) ELSE Min2(i, upper)
      stop == IF j = NONE THEN (IF step > 0 THEN upper ELSE lower)
              ELSE IF j < 0 THEN Max2(j + n, lower) ELSE Min2(j, upper)
  IN [start |-> start, stop |-> stop, step |-> step]
SliceCount(sp) ==
  IF sp.step > 0
    THEN IF sp.stop > sp.start THEN (sp.stop - sp.start + sp.step - 1) \div sp.step ELSE 0
    ELSE IF sp.start > sp.stop THEN (sp.start - sp.stop - sp.step - 1) \div (-sp.step) ELSE 0
\* the selected 0-based indices, in selection order
SliceIdx(sp) == [m \in 1..SliceCount(sp) |-> sp.start + (m - 1) * sp.step]
SeqRange(q) == {q[m] : m \in DOMAIN q}
\* drop a set of 0-based indices
RECURSIVE DropIdx(_, _, _)
DropIdx(s, drop, pos) ==
  IF pos > Len(s) THEN <<>>
  ELSE (IF (pos - 1) \in drop THEN <<>> ELSE <<s[pos]>>) \o DropIdx(s, drop, pos + 1)

FirstIdx(s, x) == LET hits == {m \in 1..Len(s) : PyEq(s[m], x)}
                  IN IF hits = {} THEN 0 ELSE CHOOSE m \in hits : \A h \in hits : m <= h
CmpRet(c) == IF c = "E" THEN Err("TypeError") ELSE S(c)

ListApply(l, o, fam) ==
  LET s == l.s
      n == Len(l.s)
  IN CASE o.op = "getitem" ->
            Out(l, IF InRange(o.i, n) THEN s[NormIdx(o.i, n) + 1] ELSE Err("IndexError"))
       [] o.op = "getslice" ->
            IF o.st = 0 THEN Out(l, Err("ValueError"))
            ELSE LET q == SliceIdx(SliceParts(o.i, o.j, o.st, n))
                 IN Out(l, L([m \in DOMAIN q |-> s[q[m] + 1]]))
       [] o.op = "setitem" ->
            IF Forbidden(o.x, fam) THEN Out(l, Err("Rejected"))
            ELSE IF InRange(o.i, n) THEN Out(L(SetAt(s, NormIdx(o.i, n), o.x)), Null)
            ELSE Out(l, Err("IndexError"))
       [] o.op = "setslice" ->
            IF Forbidden(o.x, fam) THEN Out(l, Err("Rejected"))
            ELSE IF o.st = 0 THEN Out(l, Err("ValueError"))
            ELSE IF ~IsL(o.x) THEN Out(l, Err("TypeError"))
            ELSE LET sp == SliceParts(o.i, o.j, o.st, n)
                     q == SliceIdx(sp)
                 IN IF sp.step = 1
                      THEN LET stop == Max2(sp.start, sp.stop)
                           IN Out(L(SubSeq(s, 1, sp.start) \o o.x.s \o SubSeq(s, stop + 1, n)), Null)
                    ELSE IF Len(o.x.s) # Len(q) THEN Out(l, Err("ValueError"))
                    ELSE Out(L([m \in 1..n |->
                                 IF (m - 1) \in SeqRange(q)
                                   THEN o.x.s[CHOOSE z \in DOMAIN q : q[z] = m - 1]
                                   ELSE s[m]]), Null)
       [] o.op = "delitem" ->
            IF InRange(o.i, n) THEN Out(L(RemoveAt(s, NormIdx(o.i, n))), Null)
            ELSE Out(l, Err("IndexError"))
       [] o.op = "delslice" ->
            IF o.st = 0 THEN Out(l, Err("ValueError"))
            ELSE Out(L(DropIdx(s, SeqRange(SliceIdx(SliceParts(o.i, o.j, o.st, n))), 1)), Null)
       [] o.op = "len" -> Out(l, IntV(n))
       [] o.op = "iter" -> Out(l, l)
       [] o.op = "contains" -> Out(l, Bool(FirstIdx(s, o.x) # 0))
       [] o.op = "reversed" -> Out(l, L(Rev(s)))
       [] o.op = "index" ->
            IF FirstIdx(s, o.x) = 0 THEN Out(l, Err("ValueError"))
            ELSE Out(l, IntV(FirstIdx(s, o.x) - 1))
       [] o.op = "count" -> Out(l, IntV(Cardinality({m \in 1..n : PyEq(s[m], o.x)})))
       [] o.op = "append" ->
            IF Forbidden(o.x, fam) THEN Out(l, Err("Rejected")) ELSE Out(L(Append(s, o.x)), Null)
       [] o.op = "extend" ->
            IF Forbidden(o.x, fam) THEN Out(l, Err("Rejected"))
            ELSE IF ~IsL(o.x) THEN Out(l, Err("TypeError"))
            ELSE Out(L(s \o o.x.s), Null)
       [] o.op = "iadd" ->
            IF Forbidden(o.x, fam) THEN Out(l, Err("Rejected"))
            ELSE IF ~IsL(o.x) THEN Out(l, Err("TypeError"))
            ELSE Out(L(s \o o.x.s), [t |-> "self"])
       [] o.op = "insert" ->
            IF Forbidden(o.x, fam) THEN Out(l, Err("Rejected"))
            ELSE Out(L(InsertAt(s, ClampIns(o.i, n), o.x)), Null)
       [] o.op = "pop" ->
            LET i == IF o.i = NONE THEN -1 ELSE o.i
            IN IF InRange(i, n) THEN Out(L(RemoveAt(s, NormIdx(i, n))), s[NormIdx(i, n) + 1])
               ELSE Out(l, Err("IndexError"))
       [] o.op = "remove" ->
            IF FirstIdx(s, o.x) = 0 THEN Out(l, Err("ValueError"))
            ELSE Out(L(RemoveAt(s, FirstIdx(s, o.x) - 1)), Null)
       [] o.op = "reverse" -> Out(L(Rev(s)), Null)
       [] o.op = "clear" -> Out(EmptyL, Null)
       [] o.op = "reset" ->
            IF ~IsL(o.x) THEN Out(l, Err("ValueError"))
            ELSE IF Forbidden(o.x, fam) THEN
              \* bulk rejection: a prefix of acceptable elements may already have been merged
              LET bad == {m \in 1..Len(o.x.s) : Forbidden(o.x.s[m], fam)}
                  firstbad == CHOOSE m \in bad : \A b \in bad : m <= b
              IN {[val |-> L(q), ret |-> Err("Rejected")]
                    : q \in {s} \cup {SubSeq(o.x.s, 1, m) \o SubSeq(s, m + 1, n) : m \in 0..(firstbad - 1)}}
            ELSE Out(o.x, Null)
       [] o.op = "eq" -> Out(l, Bool(PyEq(l, o.x)))
       [] o.op = "ne" -> Out(l, Bool(~PyEq(l, o.x)))
       [] o.op \in {"lt", "le", "gt", "ge"} -> Out(l, CmpRet(PyCmp(l, o.x, o.op)))
       [] o.op = "call" -> Out(l, l)

Apply(v, o, fam) == IF IsD(v) THEN DictApply(v, o, fam) ELSE ListApply(v, o, fam)

(***************************************************************************)
(* Which child positions an operation issued through THIS object destroys  *)
(* (the objects living there are replaced or removed, or - for lists -     *)
(* may have moved): handles of the same object below them lose their       *)
(* guarantee.  all = TRUE means every position below the container.        *)
(***************************************************************************)
Destroys(v, o, out) ==
  IF IsErr(out.ret) /\ out.ret.e # "Rejected" THEN [all |-> FALSE, steps |-> {}]
  ELSE IF IsD(v) THEN
    CASE o.op \in {"setitem", "delitem", "pop"} -> [all |-> FALSE, steps |-> {KStep(o.k)}]
      [] o.op = "setdefault" -> [all |-> FALSE, steps |-> {}]
      [] o.op \in {"popitem", "clear", "reset", "update"} -> [all |-> TRUE, steps |-> {}]
      [] OTHER -> [all |-> FALSE, steps |-> {}]
  ELSE
    CASE o.op = "setitem" -> [all |-> FALSE, steps |-> IF InRange(o.i, Len(v.s)) THEN {IStep(NormIdx(o.i, Len(v.s)))} ELSE {}]
      [] o.op \in {"append", "extend", "iadd"} -> [all |-> FALSE, steps |-> {}]
      [] o.op \in {"setslice", "delitem", "delslice", "insert", "pop", "remove", "reverse",
                   "clear", "reset"} -> [all |-> TRUE, steps |-> {}]
      [] OTHER -> [all |-> FALSE, steps |-> {}]

(***************************************************************************)
(* Operation menus (bounded): every public operation appears.              *)
(***************************************************************************)
DictOps(keys, argvals, cmpvals) ==
       {[op |-> "getitem", k |-> k] : k \in keys}
  \cup {[op |-> "setitem", k |-> k, x |-> x] : k \in keys, x \in argvals}
  \cup {[op |-> "delitem", k |-> k] : k \in keys}
  \cup {[op |-> "contains", k |-> k] : k \in keys}
  \cup {[op |-> o] : o \in {"len", "iter", "keys", "values", "items", "popitem", "clear", "call"}}
  \cup {[op |-> "get", k |-> k, y |-> y] : k \in keys, y \in {Null, S("i2")}}
  \cup {[op |-> "pop", k |-> k, y |-> y] : k \in keys, y \in {Null, S("i2")}}
  \cup {[op |-> "update", x |-> x] : x \in {a \in argvals : IsD(a)}}
  \cup {[op |-> "setdefault", k |-> k, y |-> y] : k \in keys, y \in argvals}
  \cup {[op |-> o, x |-> x] : o \in {"eq", "ne"}, x \in cmpvals}
  \cup {[op |-> "reset", x |-> x] : x \in {a \in argvals : IsC(a)}}

ListOps(idx, slices, argvals, cmpvals) ==
       {[op |-> "getitem", i |-> i] : i \in idx}
  \cup {[op |-> "getslice", i |-> sl[1], j |-> sl[2], st |-> sl[3]] : sl \in slices}
  \cup {[op |-> "setitem", i |-> i, x |-> x] : i \in idx, x \in argvals}
  \cup {[op |-> "setslice", i |-> sl[1], j |-> sl[2], st |-> sl[3], x |-> x]
          : sl \in slices, x \in {a \in argvals : IsL(a)}}
  \cup {[op |-> "delitem", i |-> i] : i \in idx}
  \cup {[op |-> "delslice", i |-> sl[1], j |-> sl[2], st |-> sl[3]] : sl \in slices}
  \cup {[op |-> o] : o \in {"len", "iter", "reversed", "reverse", "clear", "call"}}
  \cup {[op |-> o, x |-> x] : o \in {"contains", "index", "count", "remove"}, x \in argvals \cup cmpvals}
  \cup {[op |-> "append", x |-> x] : x \in argvals}
  \cup {[op |-> o, x |-> x] : o \in {"extend", "iadd"}, x \in {a \in argvals : IsL(a)}}
  \cup {[op |-> "insert", i |-> i, x |-> x] : i \in idx, x \in argvals}
  \cup {[op |-> "pop", i |-> i] : i \in idx \cup {NONE}}
  \cup {[op |-> "reset", x |-> x] : x \in {a \in argvals : IsC(a)}}
  \cup {[op |-> o, x |-> x] : o \in {"eq", "ne", "lt", "le", "gt", "ge"}, x \in cmpvals}
=============================================================================
