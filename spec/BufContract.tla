------------------------------ MODULE BufContract ------------------------------
(***************************************************************************)
(* Level 1 for BUFFERED file collections (C05, C06, C07, C15, buffered     *)
(* C17): what a user may rely on, no more.                                 *)
(*                                                                         *)
(*  file[r]   [doc, ver, ex]  content of file r, a version that changes    *)
(*            with every (re)write (stands for inode/size/mtime), exists   *)
(*  buf[r]    the one buffered copy of file r shared by all objects bound  *)
(*            to r: [e (present), doc, base (content when it entered the   *)
(*            buffer), ver0 (file version then), mod (a mutator ran)]      *)
(*  stk       the stack of open contexts: "B" = Class.buffer_backend(cap), *)
(*            "O" = obj.buffered                                           *)
(*  cap       the configured capacity                                      *)
(*                                                                         *)
(* Where the properties leave a choice (whether an unchanged copy is       *)
(* rewritten, which entries a capacity-forced flush evicts, whether a      *)
(* flushed entry stays cached clean) the specification is nondeterministic *)
(* so that it accepts every behaviour the properties allow.                *)
(***************************************************************************)
EXTENDS PyOps

CONSTANTS Strategy,   \* "serialized" | "memory"
          Kind,       \* "d" | "l"   kind of every root document
          Fam,        \* "json" | "attr"
          Files, Objs, FileOf,
          Strict      \* TRUE: resolve the free choices the way the implementation does (generation)

VARIABLES file, buf, stk, cap, last
bvars == <<file, buf, stk, cap, last>>

Empty == IF Kind = "d" THEN EmptyD ELSE EmptyL
NoEntry == [e |-> FALSE, doc |-> Empty, base |-> Empty, ver0 |-> 0, mod |-> FALSE]
Fresh(f) == [e |-> TRUE, doc |-> f.doc, base |-> f.doc, ver0 |-> f.ver, mod |-> FALSE]
Clean(e, ver) == [e |-> TRUE, doc |-> e.doc, base |-> e.doc, ver0 |-> ver, mod |-> FALSE]
Written(f, d) == [doc |-> d, ver |-> f.ver + 1, ex |-> TRUE]

BFrame(capset, saved) == [k |-> "B", o |-> "", capset |-> capset, saved |-> saved]
OFrame(o) == [k |-> "O", o |-> o, capset |-> FALSE, saved |-> 0]

CountIn(s, P(_)) == Cardinality({i \in 1..Len(s) : P(s[i])})
OCtxIn(s, o) == CountIn(s, LAMBDA fr : fr.k = "O" /\ fr.o = o)
BCtxIn(s) == CountIn(s, LAMBDA fr : fr.k = "B")
BufferedIn(s, o) == OCtxIn(s, o) > 0 \/ BCtxIn(s) > 0
Buffered(o) == BufferedIn(stk, o)
ObjsOf(r) == {o \in Objs : FileOf[o] = r}
\* objects bound to one file are only used while they are in the same buffering state
SameState(r) == \A o1, o2 \in ObjsOf(r) : Buffered(o1) = Buffered(o2)

(***************************************************************************)
(* Encoded size of a document = len(json.dumps(doc)) with default          *)
(* separators (cross-checked against CPython by the harness).              *)
(***************************************************************************)
AtomLen(a) == CASE a \in {"n", "T"} -> 4 [] a = "F" -> 5
                [] a \in {"f0", "f1", "f2"} -> 3
                [] a \in NumAtoms -> 1
                [] OTHER -> Len(a) + 1       \* "s<text>" -> quotes + text
RECURSIVE SumFn(_)
SumFn(f) == IF DOMAIN f = {} THEN 0
            ELSE LET x == CHOOSE y \in DOMAIN f : TRUE IN f[x] + SumFn([k \in DOMAIN f \ {x} |-> f[k]])
RECURSIVE EncLen(_)
EncLen(v) ==
  IF IsD(v) THEN LET n == Cardinality(DOMAIN v.m)
                 IN 2 + SumFn([k \in DOMAIN v.m |-> Len(k) + 4 + EncLen(v.m[k])]) + (IF n > 1 THEN 2 * (n - 1) ELSE 0)
  ELSE IF IsL(v) THEN LET n == Len(v.s)
                      IN 2 + SumFn([i \in 1..n |-> EncLen(v.s[i])]) + (IF n > 1 THEN 2 * (n - 1) ELSE 0)
  ELSE AtomLen(v.t)

SizeOf(b) == IF Strategy = "serialized"
               THEN SumFn([r \in {q \in Files : b[q].e} |-> EncLen(b[r].doc)])
               ELSE Cardinality({r \in Files : b[r].e /\ b[r].mod})
Size == SizeOf(buf)

(***************************************************************************)
(* Flushing one buffered copy e of file f: the set of allowed outcomes.    *)
(***************************************************************************)
FlushOut(e, f) ==
  IF ~e.e \/ ~e.mod THEN {[f |-> f, err |-> FALSE]}                         \* only read: never written, never raises
  ELSE IF f.ver = e.ver0
    THEN IF e.doc # e.base THEN {[f |-> Written(f, e.doc), err |-> FALSE]}  \* must be written
         ELSE {[f |-> f, err |-> FALSE], [f |-> Written(f, e.doc), err |-> FALSE]}
  ELSE IF e.doc # e.base THEN {[f |-> f, err |-> TRUE]}                      \* conflict: raise, keep the outside content
       ELSE {[f |-> f, err |-> FALSE], [f |-> f, err |-> TRUE]}

\* flushing a set fs of files: all combinations of outcomes; `keepable` = entries may stay cached clean
FlushSet(b, fl, fs, keepable) ==
  LET outs(r) == {<<o, k>> : o \in FlushOut(b[r], fl[r]),
                             k \in IF ~keepable THEN {FALSE}
                                   ELSE IF Strict THEN {Strategy = "memory"} ELSE BOOLEAN}
      allouts == UNION {outs(r) : r \in fs}
  \* a copy whose flush raised is either evicted or stays buffered STILL CONFLICTING (so that a later flush
  \* raises again): it must never be re-based on the outside writer's version, or a later flush would
  \* silently overwrite the outside change (C07)
  IN {[buf |-> [r \in Files |-> IF r \notin fs THEN b[r]
                                 ELSE IF ch[r][1].err THEN (IF ch[r][2] THEN b[r] ELSE NoEntry)
                                 ELSE IF ch[r][2] /\ b[r].e THEN Clean(b[r], ch[r][1].f.ver) ELSE NoEntry],
       file |-> [r \in Files |-> IF r \in fs THEN ch[r][1].f ELSE fl[r]],
       errs |-> {r \in fs : ch[r][1].err}]
      : ch \in {c \in [fs -> allouts] : \A r \in fs : c[r] \in outs(r)}}

\* what a step that leaves buffer b1 may do about the capacity c
AfterCapacity(b1, fl, c) ==
  IF SizeOf(b1) <= c THEN {[buf |-> b1, file |-> fl, errs |-> {}]}          \* nothing may be written
  ELSE LET present == {r \in Files : b1[r].e}
           sets == IF Strict THEN {IF Strategy = "serialized" THEN present ELSE {r \in present : b1[r].mod}}
                   ELSE SUBSET present
       IN {x \in UNION {FlushSet(b1, fl, fs, TRUE) : fs \in sets} : SizeOf(x.buf) <= c}

ErrRet(errs) == [t |-> "!", e |-> "BufferedError", files |-> errs]

(***************************************************************************)
(* Actions                                                                 *)
(***************************************************************************)
\* a public operation on (the root of) object o
Op(o, op) ==
  LET r == FileOf[o] IN
  /\ SameState(r)
  /\ IF ~Buffered(o)
       THEN \E out \in Apply(file[r].doc, op, Fam) :
              /\ \E f2 \in (IF IsRead(op.op) THEN {file[r]}
                            ELSE IF IsErr(out.ret) \/ out.val = file[r].doc
                              THEN {file[r], Written(file[r], out.val)}     \* nothing new to persist
                            ELSE {Written(file[r], out.val)}) :
                   file' = [file EXCEPT ![r] = f2]
              /\ buf' = buf
              /\ last' = [a |-> "op", o |-> o, op |-> op, ret |-> out.ret]
       ELSE \* phase 1: the file is brought into the buffer (if it is not there); the buffer may
            \* transiently exceed the capacity, which may force a flush - even for a read - before
            \* the operation itself is carried out.  If that flush fails the operation raises.
            LET e0 == IF buf[r].e THEN buf[r] ELSE Fresh(file[r])
                b0 == [buf EXCEPT ![r] = e0]
            IN \E x0 \in AfterCapacity(b0, file, cap) :
                 IF x0.errs # {}
                   THEN /\ buf' = x0.buf /\ file' = x0.file
                        /\ last' = [a |-> "op", o |-> o, op |-> op, ret |-> ErrRet(x0.errs)]
                   ELSE \* phase 2: the operation on the buffered copy (re-read if phase 1 evicted it)
                        LET e0b == IF x0.buf[r].e THEN x0.buf[r] ELSE Fresh(x0.file[r]) IN
                        \E out \in Apply(e0b.doc, op, Fam) :
                          IF IsRead(op.op)
                            THEN /\ buf' = x0.buf /\ file' = x0.file
                                 /\ last' = [a |-> "op", o |-> o, op |-> op, ret |-> out.ret]
                            ELSE \E m \in (IF IsErr(out.ret) \/ out.val = e0b.doc THEN {e0b.mod, TRUE} ELSE {TRUE}) :
                                   LET e1 == [e0b EXCEPT !.doc = out.val, !.mod = m]
                                       b1 == [x0.buf EXCEPT ![r] = e1]
                                   IN \E x \in AfterCapacity(b1, x0.file, cap) :
                                        /\ buf' = x.buf /\ file' = x.file
                                        /\ last' = [a |-> "op", o |-> o, op |-> op,
                                                    ret |-> IF x.errs = {} THEN out.ret ELSE ErrRet(x.errs)]
  /\ UNCHANGED <<stk, cap>>

EnterObj(o) ==
  /\ stk' = Append(stk, OFrame(o))
  /\ last' = [a |-> "enterO", o |-> o]
  /\ UNCHANGED <<file, buf, cap>>

\* Class.buffer_backend(c): c = NONE means no capacity given
EnterBackend(c) ==
  /\ stk' = Append(stk, BFrame(c # NONE, cap))
  /\ LET c2 == IF c = NONE THEN cap ELSE c IN
     /\ cap' = c2
     /\ \E x \in AfterCapacity(buf, file, c2) :
          /\ buf' = x.buf /\ file' = x.file
          /\ last' = [a |-> "enterB", c |-> c, errs |-> x.errs]

SetCapacity(c) ==
  /\ cap' = c
  /\ \E x \in AfterCapacity(buf, file, c) :
       /\ buf' = x.buf /\ file' = x.file
       /\ last' = [a |-> "setcap", c |-> c, errs |-> x.errs]
  /\ UNCHANGED stk

\* leaving the innermost open context
ExitTop ==
  /\ stk # <<>>
  /\ LET fr == stk[Len(stk)]
         s2 == SubSeq(stk, 1, Len(stk) - 1)
         c2 == IF fr.k = "B" /\ fr.capset THEN fr.saved ELSE cap
         \* files whose objects have all just left the buffered state
         done == {r \in Files : /\ buf[r].e
                                /\ \A o \in ObjsOf(r) : ~BufferedIn(s2, o)
                                /\ \E o \in ObjsOf(r) : BufferedIn(stk, o)}
         \* files one of whose objects left while another is still buffered (per-object contexts)
         partial == {r \in Files : /\ buf[r].e /\ fr.k = "O" /\ FileOf[fr.o] = r
                                   /\ ~BufferedIn(s2, fr.o)
                                   /\ \E o \in ObjsOf(r) : BufferedIn(s2, o)}
     IN /\ stk' = s2
        /\ cap' = c2
        /\ \E x \in FlushSet(buf, file, done, FALSE) :
           \E y \in FlushSet(x.buf, x.file, partial, TRUE) :
           \E z \in AfterCapacity(y.buf, y.file, c2) :
           \* restoring a smaller capacity may force a second flush with conflicts of its own: the
           \* properties do not say which of the two errors surfaces, so either or their union is accepted
           \E reported \in {x.errs \cup y.errs \cup z.errs} \cup
                           (IF z.errs # {} /\ (x.errs \cup y.errs) # {} THEN {z.errs, x.errs \cup y.errs} ELSE {}) :
             /\ buf' = z.buf /\ file' = z.file
             /\ last' = [a |-> IF fr.k = "B" THEN "exitB" ELSE "exitO", o |-> fr.o, errs |-> reported]

\* an outside writer replaces file r
External(r, v) ==
  /\ file' = [file EXCEPT ![r] = Written(file[r], v)]
  /\ last' = [a |-> "ext", r |-> r, v |-> v]
  /\ UNCHANGED <<buf, stk, cap>>

InitWith(docs, ex, c0) ==
  /\ file = [r \in Files |-> [doc |-> docs[r], ver |-> 0, ex |-> ex[r]]]
  /\ buf = [r \in Files |-> NoEntry]
  /\ stk = <<>>
  /\ cap = c0
  /\ last = [a |-> "init"]

(***************************************************************************)
(* Properties of this level (TLC checks them on every bounded instance).   *)
(***************************************************************************)
NoContext == stk = <<>>
\* C15 / C07: with no context open the buffer is empty and its size is 0
C15_EmptyOutside == NoContext => (\A r \in Files : ~buf[r].e) /\ Size = 0
\* C15: after every step the reported size is within the capacity
C15_WithinCapacity == Size <= cap
\* C05 / C17: a buffered copy exists only for files with a buffered object
EntriesCovered == \A r \in Files : buf[r].e => \E o \in ObjsOf(r) : Buffered(o)
\* C05: while an object stays buffered and capacity suffices, its file is not written
C05_Deferred ==
  [][\A r \in Files :
       (last'.a \in {"op", "enterO", "enterB"} /\ buf[r].e /\ buf'[r].e /\ buf'[r].mod
        /\ (\A o \in ObjsOf(r) : Buffered(o))) => file'[r] = file[r] \/ last'.a = "ext"]_bvars
\* C17: a step that is a read, or an exit with only clean copies, writes nothing
C17_ReadsNeverWrite ==
  [][(last'.a = "op" /\ IsRead(last'.op.op) /\ (\A r \in Files : ~buf[r].mod)) => file' = file]_bvars
\* C07: a conflicting modified copy is never written over the outside content
C07_NoSilentOverwrite ==
  [][\A r \in Files :
       (last'.a # "ext" /\ buf[r].e /\ buf[r].mod /\ buf[r].doc # buf[r].base /\ file[r].ver # buf[r].ver0
        /\ ~(last'.a = "op" /\ ~Buffered(last'.o)))
       => file'[r] = file[r]]_bvars
=============================================================================
