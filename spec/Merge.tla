---------------------------------- MODULE Merge ----------------------------------
(***************************************************************************)
(* Level 2: the in-place merge (_update) that brings an object's in-memory *)
(* tree up to date with data loaded from the resource, transcribed branch  *)
(* for branch from synced_dict.py / synced_list.py (C02, C12).             *)
(*                                                                         *)
(* In-memory trees carry object identities: a container node is            *)
(*   [t |-> "d", id |-> n, m |-> [key -> node]]  /  [t |-> "l", id, s]     *)
(* id 0 = an object created by this merge.  The merge must (a) leave the   *)
(* tree equal to the new data, leaf types included, and (b) keep the       *)
(* identity of every container whose position still holds a container of   *)
(* the same kind (so child handles retained by the user stay attached).    *)
(* Deviation flags reproduce two defects of the pinned tree (both fixed).  *)
(***************************************************************************)
EXTENDS JsonValue
CONSTANTS Dev_NoneIsNoop,     \* a nested container whose new value is null keeps its content (before 9b01409)
          Dev_PyEqKeepsOld    \* == decides "unchanged": True/1/1.0 conflated (before ff50858)

Node(v) == IsD(v) \/ IsL(v)
\* plain data -> tree of fresh objects
RECURSIVE FreshTree(_)
FreshTree(v) == IF IsD(v) THEN [t |-> "d", id |-> 0, m |-> [k \in DOMAIN v.m |-> FreshTree(v.m[k])]]
                ELSE IF IsL(v) THEN [t |-> "l", id |-> 0, s |-> [i \in 1..Len(v.s) |-> FreshTree(v.s[i])]]
                ELSE v
\* plain data -> tree whose container at path p has identity IdOf(p) (a handle retained by the user)
RECURSIVE PlainOf(_)
PlainOf(x) == IF IsD(x) THEN D([k \in DOMAIN x.m |-> PlainOf(x.m[k])])
              ELSE IF IsL(x) THEN L([i \in 1..Len(x.s) |-> PlainOf(x.s[i])])
              ELSE x

RECURSIVE MergeTree(_, _)
Unchanged(e, nv) == IF Dev_PyEqKeepsOld THEN PyEq(PlainOf(e), nv) ELSE (~Node(e) /\ ~Node(nv) /\ e = nv)
MergeChild(e, nv) ==
  IF Dev_PyEqKeepsOld /\ PyEq(PlainOf(e), nv) THEN e
  ELSE IF Node(e) THEN
         IF nv = Null THEN (IF Dev_NoneIsNoop THEN e ELSE nv)
         ELSE IF Node(nv) /\ nv.t = e.t THEN MergeTree(e, nv)      \* existing._update(new_value)
         ELSE FreshTree(nv)                                         \* ValueError -> replaced
  ELSE IF Unchanged(e, nv) THEN e ELSE FreshTree(nv)
MergeTree(e, nv) ==
  IF e.t = "d"
    THEN [e EXCEPT !.m = [k \in DOMAIN nv.m |-> IF k \in DOMAIN e.m THEN MergeChild(e.m[k], nv.m[k])
                                                ELSE FreshTree(nv.m[k])]]
    ELSE LET n == IF Len(e.s) < Len(nv.s) THEN Len(e.s) ELSE Len(nv.s)
         IN [e EXCEPT !.s = [i \in 1..Len(nv.s) |-> IF i <= n THEN MergeChild(e.s[i], nv.s[i]) ELSE FreshTree(nv.s[i])]]

\* identities: the set of <<path, id>> of retained (id # 0) containers
RECURSIVE Ids(_, _)
Ids(x, p) == IF IsD(x) THEN (IF x.id # 0 THEN {<<p, x.id>>} ELSE {}) \cup UNION {Ids(x.m[k], p \o <<KStep(k)>>) : k \in DOMAIN x.m}
             ELSE IF IsL(x) THEN (IF x.id # 0 THEN {<<p, x.id>>} ELSE {}) \cup UNION {Ids(x.s[i], p \o <<IStep(i - 1)>>) : i \in 1..Len(x.s)}
             ELSE {}
\* a tree of `old` in which every container is a retained object, identified by its path
RECURSIVE Held(_, _, _)
Held(v, p, idof) ==
  IF IsD(v) THEN [t |-> "d", id |-> idof[p], m |-> [k \in DOMAIN v.m |-> Held(v.m[k], p \o <<KStep(k)>>, idof)]]
  ELSE IF IsL(v) THEN [t |-> "l", id |-> idof[p], s |-> [i \in 1..Len(v.s) |-> Held(v.s[i], p \o <<IStep(i - 1)>>, idof)]]
  ELSE v
\* handles that must stay attached: every prefix of the path addresses same-kind containers in old and new
StaysAttached(old, new, p) ==
  \A n \in 0..Len(p) : LET q == SubSeq(p, 1, n) IN Node(Get(old, q)) /\ Get(new, q).t = Get(old, q).t
=============================================================================
