---------------------------------- MODULE Save ----------------------------------
(***************************************************************************)
(* The save protocol of the JSON backend with crash points (C08).          *)
(*                                                                         *)
(* A job is a sequence of NFiles saves (one save = an unbuffered mutator,  *)
(* NFiles > 1 = a buffer flush writing several files one after another).   *)
(* Each save serialises first and then writes either atomically (temp file *)
(* + os.replace; write_concern or threading support active) or in place.   *)
(* File content is abstracted to: "old", or a prefix of length n of the    *)
(* new blob (n = BlobLen is the complete new content, 0 is empty).         *)
(* Crash is enabled in every state.                                        *)
(* Atomic is the mode in effect WHEN THE SAVE STARTS: the object's         *)
(* write_concern or the class's threading support at that moment - not at  *)
(* the time the object was created (the harness has scenarios that switch  *)
(* the support on after construction).                                     *)
(***************************************************************************)
EXTENDS Integers, Sequences, TLC

CONSTANTS NFiles, BlobLen,
          Atomic,        \* TRUE: temp file + replace; FALSE: truncate in place
          CanFail        \* TRUE: serialisation of a file may fail (unserialisable content)

VARIABLES cur,      \* index of the file being saved (NFiles + 1 = all done)
          pc,       \* "ser" "open" "write" "close" "replace" "done" "failed"
          target,   \* [1..NFiles -> content]   content = [k |-> "old"] | [k |-> "new", n |-> 0..BlobLen]
          tmp,      \* content of the temp file of the current save, or [k |-> "none"]
          crashed
svars == <<cur, pc, target, tmp, crashed>>

Old == [k |-> "old", n |-> 0]
New(n) == [k |-> "new", n |-> n]
None == [k |-> "none", n |-> 0]
Complete(c) == c = Old \/ c = New(BlobLen)

Init == /\ cur = 1 /\ pc = "ser" /\ target = [f \in 1..NFiles |-> Old] /\ tmp = None /\ crashed = FALSE

Running == ~crashed /\ cur <= NFiles

\* json.dumps of the whole content happens BEFORE any file is opened
SerializeOK == Running /\ pc = "ser" /\ pc' = "open" /\ UNCHANGED <<cur, target, tmp, crashed>>
SerializeFails == Running /\ pc = "ser" /\ CanFail /\ pc' = "failed" /\ UNCHANGED <<cur, target, tmp, crashed>>

OpenTmp == Running /\ pc = "open" /\ Atomic
           /\ tmp' = New(0) /\ pc' = "write" /\ UNCHANGED <<cur, target, crashed>>
OpenTrunc == Running /\ pc = "open" /\ ~Atomic
             /\ target' = [target EXCEPT ![cur] = New(0)] /\ pc' = "write" /\ UNCHANGED <<cur, tmp, crashed>>

\* bytes reach the file in any number of chunks
WriteSome(n) == /\ Running /\ pc = "write"
                /\ IF Atomic THEN /\ n > tmp.n /\ n <= BlobLen /\ tmp' = New(n) /\ UNCHANGED target
                             ELSE /\ n > target[cur].n /\ n <= BlobLen
                                  /\ target' = [target EXCEPT ![cur] = New(n)] /\ UNCHANGED tmp
                /\ UNCHANGED <<cur, pc, crashed>>
Close == /\ Running /\ pc = "write"
         /\ IF Atomic THEN tmp' = New(BlobLen) /\ UNCHANGED target
                      ELSE target' = [target EXCEPT ![cur] = New(BlobLen)] /\ UNCHANGED tmp
         /\ pc' = IF Atomic THEN "replace" ELSE "done"
         /\ UNCHANGED <<cur, crashed>>
Replace == /\ Running /\ pc = "replace" /\ Atomic
           /\ target' = [target EXCEPT ![cur] = tmp] /\ tmp' = None /\ pc' = "done"
           /\ UNCHANGED <<cur, crashed>>
NextFile == /\ Running /\ pc = "done"
            /\ cur' = cur + 1
            /\ pc' = (IF cur + 1 <= NFiles THEN "ser" ELSE "done")
            /\ UNCHANGED <<target, tmp, crashed>>
Crash == /\ ~crashed /\ cur <= NFiles /\ crashed' = TRUE /\ UNCHANGED <<cur, pc, target, tmp>>

Next == SerializeOK \/ SerializeFails \/ OpenTmp \/ OpenTrunc \/ (\E n \in 1..BlobLen : WriteSome(n))
        \/ Close \/ Replace \/ NextFile \/ Crash
Spec == Init /\ [][Next]_svars

(***************************************************************************)
(* C08                                                                     *)
(***************************************************************************)
\* atomic mode: at every instant - hence after a crash at any instant - every file is wholly old or wholly new
C08_OldOrNew == Atomic => \A f \in 1..NFiles : Complete(target[f])
\* any mode: content that cannot be serialised never damages the file
C08_SerializeFailureHarmless == pc = "failed" => Complete(target[cur])
\* a file is only ever opened after serialisation succeeded
C08_SerializeFirst == \A f \in 1..NFiles : (f = cur /\ pc = "ser") => target[f] = Old
\* in place mode the invariant is NOT expected to hold (documented); used by the self-test of the machinery
InPlaceIsNotAtomic == \A f \in 1..NFiles : Complete(target[f])
=============================================================================
