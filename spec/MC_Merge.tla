-------------------------------- MODULE MC_Merge --------------------------------
(***************************************************************************)
(* All ordered pairs (old, new) of bounded documents: the merge of new     *)
(* into a tree of old in which every container is a retained object.       *)
(***************************************************************************)
EXTENDS Merge, Json
CONSTANTS Kind, Tier, SampleK
VARIABLES old, new, ph
mvars == <<old, new, ph>>

Atoms == IF Tier = "thorough" THEN {"n", "i1", "T"} ELSE IF Tier = "eq" THEN {"i1", "T"} ELSE {"n", "i1"}
Sub == Vals(1, Atoms, {"a", "b"}, 2)
Docs == IF Kind = "d" THEN DictsOver({"a", "b"}, Sub) ELSE ListsOver(2, Sub)

\* identities are positions in a fixed enumeration of paths (any injective naming works)
PathsOf(v) == ContainerPaths(v)
IdOf(v) == LET ps == PathsOf(v) IN CHOOSE f \in [ps -> 1..Cardinality(ps)] : \A p, q \in ps : p # q => f[p] # f[q]

Init == old \in Docs /\ new \in Docs /\ ph = 0
Next == ph = 0 /\ ph' = 1 /\ UNCHANGED <<old, new>>

Merged == LET f == IdOf(old) IN MergeTree(Held(old, <<>>, f), new)
\* C02 / C12: after the merge the tree IS the new data (leaf types included)
C02_MergeEqualsNew == PlainOf(Merged) = new
\* C02: a retained child stays the same object exactly as long as its position keeps a container of its kind
C02_HandlesKept == LET f == IdOf(old)
                       kept == Ids(Merged, <<>>)
                   IN \A p \in PathsOf(old) : StaysAttached(old, new, p) => <<p, f[p]>> \in kept
\* pairs that differ ONLY in leaf types Python's == conflates (1 / True; with floats also 1.0): exported separately
ExportEq == (old # new /\ PyEq(old, new) /\ (SampleK <= 1 \/ RandomElement(1..SampleK) = 1))
            => PrintT("PAIR " \o ToJson([old |-> old, new |-> new]))
Export == (SampleK <= 1 \/ RandomElement(1..SampleK) = 1) => PrintT("PAIR " \o ToJson([old |-> old, new |-> new]))
=============================================================================
