-------------------------------- MODULE MC_Attr --------------------------------
EXTENDS Attr
MCClass == [n \in Names |-> CASE n = "ord" -> "ordinary" [] n = "ord2" -> "ordinary" [] n = "prot" -> "protected"
                               [] n = "dun" -> "dunder" [] n = "cls" -> "classattr"]
Bounded == Cardinality(DOMAIN data) <= 3
=============================================================================
