-------------------------------- MODULE MC_Buffer --------------------------------
EXTENDS Buffer
CONSTANTS Scen, MaxHist
MCFiles == IF Scen = "two" THEN {"f1", "f2"} ELSE {"f1"}
MCObjs == CASE Scen = "one" -> {"A"} [] Scen = "shared" -> {"A", "B"} [] OTHER -> {"A", "C"}
MCFileOf == [o \in MCObjs |-> IF o = "C" THEN "f2" ELSE "f1"]
MCCaps == IF Strategy = "serialized" THEN {0, 6, 1000} ELSE {0, 1, 1000}
Bounded == Len(hist) <= MaxHist /\ \A r \in Files : disk[r].ver <= 4
=============================================================================
