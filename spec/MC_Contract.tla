------------------------------ MODULE MC_Contract ------------------------------
(***************************************************************************)
(* Bounded instances of Contract.tla.                                      *)
(*   Size = "small" : exhaustive BFS, every edge exported (ExportEdge)     *)
(*   Size = "large" : tlc -simulate; complete behaviours exported          *)
(*                    (ExportHist) and replayed on the real classes        *)
(***************************************************************************)
EXTENDS Contract, Json
CONSTANTS Size, HistLen, SampleK

Small == Size = "small"
Atoms == IF Small THEN {"i1", "n"} ELSE {"i1", "n", "T"}
Keys == IF Small THEN {"a", "b"} ELSE {"a", "b"}
MaxLen == IF Small THEN 2 ELSE 3
MaxDepth == IF Small THEN 2 ELSE 3

ArgVals == IF Small THEN {S("i1"), S("n"), EmptyD, D([a |-> S("i1")]), L(<<S("i1")>>)}
           ELSE {S("i1"), S("n"), S("T"), EmptyD, L(<<>>), D([a |-> S("i1")]), D([a |-> S("T"), b |-> L(<<>>)]),
                 L(<<S("i1")>>), L(<<D([a |-> S("n")])>>), D([b |-> D([a |-> S("i1")])])}
CmpVals == {EmptyD, L(<<>>)}
Idx == IF Small THEN {0, -1} ELSE {0, 1, -1, 3}
Slices == IF Small THEN {<<1, NONE, NONE>>} ELSE {<<1, NONE, NONE>>, <<NONE, NONE, 2>>, <<0, 1, NONE>>}

ReadOpNames == {"getitem", "len", "call", "contains", "get", "iter", "eq", "items", "getslice"}
MenuFor(v) ==
  LET all == IF IsD(v) THEN DictOps(Keys, ArgVals, CmpVals) ELSE ListOps(Idx, Slices, ArgVals, CmpVals)
  IN {o \in all : ~IsRead(o.op) \/ (o.op \in ReadOpNames /\ (o.op \notin {"get"} \/ o.y = Null))}

StepsOf(v) == IF IsD(v) THEN {KStep(k) : k \in DOMAIN v.m}
              ELSE IF IsL(v) THEN {IStep(i - 1) : i \in 1..Len(v.s)} ELSE {}

RootDocs ==
  IF RootKind = "d"
    THEN {EmptyD, D([a |-> S("i1")]), D([a |-> D([a |-> S("i1")])]), D([a |-> L(<<S("i1")>>)]),
          D([a |-> EmptyD, b |-> L(<<EmptyD>>)]), D([a |-> S("n"), b |-> S("i1")]),
          D([a |-> L(<<D([a |-> S("i1")]), S("n")>>)]), D([a |-> D([b |-> EmptyD]), b |-> D([a |-> S("i1")])])}
    ELSE {L(<<>>), L(<<S("i1")>>), L(<<D([a |-> S("i1")])>>), L(<<L(<<S("i1")>>), S("n")>>),
          L(<<EmptyD, L(<<EmptyD>>)>>), L(<<S("n"), D([a |-> L(<<>>)])>>)}
InitDocs == IF Small THEN {d \in RootDocs : Depth(d) <= MaxDepth} ELSE RootDocs
ExtDocs == InitDocs

RECURSIVE ListsShort(_)
ListsShort(v) == IF IsL(v) THEN Len(v.s) <= MaxLen /\ \A i \in 1..Len(v.s) : ListsShort(v.s[i])
                 ELSE IF IsD(v) THEN \A k \in DOMAIN v.m : ListsShort(v.m[k])
                 ELSE TRUE
Bounded == Depth(doc) <= MaxDepth /\ ListsShort(doc)

MCInit == \E d0 \in InitDocs : InitWith(d0)
DoAny == \E h \in Handles : hd[h].live /\ \E o \in MenuFor(Target(h)) : Do(h, o)
NavAny == \E h \in Handles, h2 \in Handles : hd[h].live /\ \E s \in StepsOf(Target(h)) : Nav(h, s, h2)
DropAny == \E h \in Handles : Drop(h)
ExtAny == \E v \in ExtDocs : Ext(v)
MCNext == DoAny \/ NavAny \/ DropAny \/ ExtAny
MCSpec == MCInit /\ [][MCNext]_vars

ExportEdge == PrintT("EDGE " \o ToJson([doc |-> doc, hd |-> hd, last |-> last', hd2 |-> hd']))
\* BFS with VIEW view and TrackHist: hist is the path on which the source state was first discovered
\* (a shortest path); every SampleK-th edge (reads: every 4*SampleK-th) is exported with that path.
ExportPath == LET k == IF last'.a = "do" /\ IsRead(last'.op.op) THEN 4 * SampleK ELSE SampleK
              IN (k <= 1 \/ RandomElement(1..k) = 1) => PrintT("HIST " \o ToJson(hist'))
ExportInit == last.a = "init" => PrintT("INIT " \o ToJson([doc |-> doc, hd |-> hd]))
ExportHist == Len(hist) = HistLen + 1 => PrintT("HIST " \o ToJson(hist))
=============================================================================
