------------------------------ MODULE MC_Resolver ------------------------------
(* Bounded instance of Resolver.tla with the behaviour export (the JSON module is kept out of Resolver.tla so that *)
(* the proof system can read it: ResolverProof.tla).                                                              *)
EXTENDS Resolver, Json
ExportHist == calls = MaxCalls => PrintT("HIST " \o ToJson(hist))
=============================================================================
