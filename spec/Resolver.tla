-------------------------------- MODULE Resolver --------------------------------
(***************************************************************************)
(* AbstractTypeResolver (utils.py): classification of values into named    *)
(* categories with a per-resolver memo keyed by concrete type, and a       *)
(* blocklist of types whose answer depends on the instance (C19).          *)
(*                                                                         *)
(* A value is [ty, inst]: its concrete type and the instance-dependent     *)
(* part of the predicates' answers (e.g. the number of dimensions of an    *)
(* array).  Matches(cat, v) is what the category's identifier function     *)
(* answers for v.  Categories are tried in a fixed order.                  *)
(***************************************************************************)
EXTENDS Naturals, Sequences, FiniteSets, TLC
CONSTANTS Blocklisted,     \* TRUE: instance-dependent types are on the cache blocklist (as in the code)
          MaxCalls,
          Dev_KeyByAddress \* deviation (never in the code under test): the memo is keyed by the ADDRESS of the type object
VARIABLES memo, calls, last, hist,
          alive,           \* types (classes) that exist now
          born,            \* types that exist or have existed (a class is created once)
          addr             \* [type -> address]: two types never share an address WHILE BOTH ARE ALIVE
rvars == <<memo, calls, last, hist, alive, born, addr>>

Cats == <<"SEQUENCE", "MAPPING">>          \* order of the identifier functions
StaticTypes == {"dict", "list", "str", "both", "neither", "array"}
\* classes created and garbage-collected at run time: a Mapping class and a Sequence class
DynTypes == {"dynmap", "dynseq"}
Types == StaticTypes \cup DynTypes
DynAddrs == {"A1"}                      \* one heap slot that the allocator hands out again after a class died
Insts == {0, 1}
Values == [ty : Types, inst : Insts]
InstanceDependent(t) == t = "array"

Matches(cat, v) ==
  CASE cat = "MAPPING" -> v.ty \in {"dict", "both", "dynmap"}
    [] cat = "SEQUENCE" -> v.ty \in {"list", "both", "dynseq"} \/ (v.ty = "array" /\ v.inst = 1)

\* history-independent truth: the first category whose identifier accepts the value, "NONE" otherwise
FirstMatch(v) == LET hits == {i \in 1..Len(Cats) : Matches(Cats[i], v)}
                 IN IF hits = {} THEN "NONE" ELSE Cats[CHOOSE i \in hits : \A j \in hits : i <= j]

\* the memo key of a type: the type object itself (which the memo thereby keeps alive), or its address
Key(t) == IF Dev_KeyByAddress THEN addr[t] ELSE t

Init == /\ memo = [t \in {} |-> "NONE"] /\ calls = 0 /\ last = [v |-> [ty |-> "str", inst |-> 0], r |-> "NONE"] /\ hist = <<>>
        /\ alive = StaticTypes /\ born = StaticTypes /\ addr = [t \in Types |-> t]

\* get_type(v) exactly as utils.py:70-98
GetType(v) ==
  /\ calls < MaxCalls
  /\ v.ty \in alive
  /\ LET k == Key(v.ty)
         r == IF k \in DOMAIN memo THEN memo[k] ELSE FirstMatch(v)
     IN /\ last' = [v |-> v, r |-> r]
        /\ memo' = IF k \in DOMAIN memo \/ (Blocklisted /\ InstanceDependent(v.ty)) THEN memo
                   ELSE [t \in DOMAIN memo \cup {k} |-> IF t = k THEN r ELSE memo[t]]
        /\ hist' = Append(hist, [ty |-> v.ty, inst |-> v.inst, r |-> r])
  /\ calls' = calls + 1
  /\ UNCHANGED <<alive, born, addr>>
\* a class is created at run time at a free address ...
Birth(t, a) == /\ t \in DynTypes \ born /\ a \in DynAddrs /\ \A u \in alive : addr[u] # a
               /\ alive' = alive \cup {t} /\ born' = born \cup {t} /\ addr' = [addr EXCEPT ![t] = a]
               /\ UNCHANGED <<memo, calls, last, hist>>
\* ... and garbage-collected - which cannot happen while the memo holds a reference to it
Death(t) == /\ t \in alive \cap DynTypes
            /\ Dev_KeyByAddress \/ t \notin DOMAIN memo
            /\ alive' = alive \ {t}
            /\ UNCHANGED <<memo, calls, last, hist, born, addr>>
Next == \/ \E v \in Values : GetType(v)
        \/ \E t \in DynTypes : Death(t) \/ \E a \in DynAddrs : Birth(t, a)

\* C19: every answer equals the value's own category, whatever was classified before
C19_HistoryIndependent == calls > 0 => last.r = FirstMatch(last.v)
\* the memo is sound: a cached type has one category for all its instances
MemoSound == \A t \in alive : Key(t) \in DOMAIN memo => \A i \in Insts : FirstMatch([ty |-> t, inst |-> i]) = memo[Key(t)]
=============================================================================
