-------------------------------- MODULE Resolver --------------------------------
(***************************************************************************)
(* AbstractTypeResolver (utils.py): classification of values into named    *)
(* categories with a per-resolver memo keyed by concrete type, and a       *)
(* blocklist of types whose answer depends on the instance (C19).          *)
(*                                                                         *)
(* A value is [ty, inst]: its concrete type and the instance-dependent     *)
(* part of the predicates' answers (e.g. the number of dimensions of an    *)
(* array).  Matches(cat, v) is what the category's identifier function     *)
(* answers for v.  Categories are tried in a fixed order.                  *)
(***************************************************************************)
EXTENDS Naturals, Sequences, FiniteSets, TLC
CONSTANTS Blocklisted,     \* TRUE: instance-dependent types are on the cache blocklist (as in the code)
          MaxCalls
VARIABLES memo, calls, last, hist
rvars == <<memo, calls, last, hist>>

Cats == <<"SEQUENCE", "MAPPING">>          \* order of the identifier functions
Types == {"dict", "list", "str", "both", "neither", "array"}
Insts == {0, 1}
Values == [ty : Types, inst : Insts]
InstanceDependent(t) == t = "array"

Matches(cat, v) ==
  CASE cat = "MAPPING" -> v.ty \in {"dict", "both"}
    [] cat = "SEQUENCE" -> v.ty \in {"list", "both"} \/ (v.ty = "array" /\ v.inst = 1)

\* history-independent truth: the first category whose identifier accepts the value, "NONE" otherwise
FirstMatch(v) == LET hits == {i \in 1..Len(Cats) : Matches(Cats[i], v)}
                 IN IF hits = {} THEN "NONE" ELSE Cats[CHOOSE i \in hits : \A j \in hits : i <= j]

Init == memo = [t \in {} |-> "NONE"] /\ calls = 0 /\ last = [v |-> [ty |-> "str", inst |-> 0], r |-> "NONE"] /\ hist = <<>>

\* get_type(v) exactly as utils.py:70-98
GetType(v) ==
  /\ calls < MaxCalls
  /\ LET r == IF v.ty \in DOMAIN memo THEN memo[v.ty] ELSE FirstMatch(v)
     IN /\ last' = [v |-> v, r |-> r]
        /\ memo' = IF v.ty \in DOMAIN memo \/ (Blocklisted /\ InstanceDependent(v.ty)) THEN memo
                   ELSE [t \in DOMAIN memo \cup {v.ty} |-> IF t = v.ty THEN r ELSE memo[t]]
        /\ hist' = Append(hist, [ty |-> v.ty, inst |-> v.inst, r |-> r])
  /\ calls' = calls + 1
Next == \E v \in Values : GetType(v)

\* C19: every answer equals the value's own category, whatever was classified before
C19_HistoryIndependent == calls > 0 => last.r = FirstMatch(last.v)
\* the memo is sound: a cached type has one category for all its instances
MemoSound == \A t \in DOMAIN memo : \A i \in Insts : FirstMatch([ty |-> t, inst |-> i]) = memo[t]
=============================================================================
