------------------------------ MODULE JsonValue ------------------------------
(***************************************************************************)
(* JSON-like values with Python semantics, as pure operators.              *)
(*                                                                         *)
(* Encoding (every value is a record whose first field is t, so TLC never  *)
(* compares incomparable things):                                          *)
(*   scalar     [t |-> atom]        atom is a string naming the scalar:    *)
(*              "n" None, "T"/"F" bool, "i<k>" int k, "f<k>" float k.0,    *)
(*              "x" a non-JSON leaf (forbidden), anything else "s<text>"   *)
(*              is the str <text>                                          *)
(*   dict       [t |-> "d", m |-> [key -> value]]   keys are TLA+ strings  *)
(*   list       [t |-> "l", s |-> <<value, ...>>]                          *)
(* The two bodies live in differently named fields on purpose: TLC orders  *)
(* record fields by an internal id, so with one shared field it ends up    *)
(* comparing a tuple with a record and dies; for the same reason an empty  *)
(* dict body is always the empty function EF, never the tuple << >>.       *)
(* Keys that stand for forbidden keys are listed in NonStrKeys ("#1" is    *)
(* the int key 1) and DottedKeys ("a.b").                                  *)
(***************************************************************************)
EXTENDS Integers, Sequences, FiniteSets, TLC

S(a) == [t |-> a]
D(f) == [t |-> "d", m |-> f]
L(s) == [t |-> "l", s |-> s]
Null == S("n")
True == S("T")
False == S("F")
EF == [k \in {} |-> 0]     \* the empty function (never write <<>> for an empty dict body)
EmptyD == D(EF)
EmptyL == L(<<>>)
Absent == [t |-> "absent"]
Err(e) == [t |-> "!", e |-> e]

IsD(v) == v.t = "d"
IsL(v) == v.t = "l"
IsC(v) == v.t \in {"d", "l"}
IsErr(v) == v.t = "!"
IsS(v) == v.t \notin {"d", "l", "!", "absent"}
Bool(b) == IF b THEN True ELSE False

NonStrKeys == {"#1", "#n"}
DottedKeys == {"a.b", "."}

NumAtoms == {"T", "F", "i0", "i1", "i2", "i3", "i4", "i5", "i6", "i7", "i8", "i9",
             "f0", "f1", "f2"}
Num(a) == CASE a \in {"F", "i0", "f0"} -> 0 [] a \in {"T", "i1", "f1"} -> 1
            [] a \in {"i2", "f2"} -> 2 [] a = "i3" -> 3 [] a = "i4" -> 4
            [] a = "i5" -> 5 [] a = "i6" -> 6 [] a = "i7" -> 7 [] a = "i8" -> 8
            [] a = "i9" -> 9
IsStrAtom(a) == a \notin NumAtoms \cup {"n", "x"}
AtomTy(a) == CASE a = "n" -> "null" [] a \in {"T", "F"} -> "bool"
               [] a \in {"f0", "f1", "f2"} -> "float" [] a \in NumAtoms -> "int"
               [] a = "x" -> "bad" [] OTHER -> "str"
\* rank used only for ordering comparisons of str atoms of the model's pool
StrRank(a) == CASE a = "s" -> 0 [] a = "sa" -> 1 [] a = "sa.b" -> 2 [] a = "sb" -> 3
                [] a = "sc" -> 4 [] OTHER -> 5
IntV(n) == S("i" \o ToString(n))
StrV(k) == S("s" \o k)

AtomEq(a, b) == IF a \in NumAtoms /\ b \in NumAtoms THEN Num(a) = Num(b) ELSE a = b

\* Python == on plain data
RECURSIVE PyEq(_, _)
PyEq(x, y) ==
  IF IsD(x) /\ IsD(y)
    THEN DOMAIN x.m = DOMAIN y.m /\ \A k \in DOMAIN x.m : PyEq(x.m[k], y.m[k])
  ELSE IF IsL(x) /\ IsL(y)
    THEN Len(x.s) = Len(y.s) /\ \A i \in 1..Len(x.s) : PyEq(x.s[i], y.s[i])
  ELSE IF IsS(x) /\ IsS(y) THEN AtomEq(x.t, y.t)
  ELSE FALSE

\* exact equality including leaf types (what a JSON round trip must preserve)
Same(x, y) == x = y

IntCmp(a, b, op) == CASE op = "lt" -> a < b [] op = "le" -> a <= b
                      [] op = "gt" -> a > b [] op = "ge" -> a >= b

\* Python ordering comparison; "T" / "F" / "E" (TypeError)
RECURSIVE PyCmp(_, _, _)
PyCmp(x, y, op) ==
  IF IsS(x) /\ IsS(y) /\ x.t \in NumAtoms /\ y.t \in NumAtoms
    THEN IF IntCmp(Num(x.t), Num(y.t), op) THEN "T" ELSE "F"
  ELSE IF IsS(x) /\ IsS(y) /\ IsStrAtom(x.t) /\ IsStrAtom(y.t)
    THEN IF IntCmp(StrRank(x.t), StrRank(y.t), op) THEN "T" ELSE "F"
  ELSE IF IsL(x) /\ IsL(y)
    THEN LET n == IF Len(x.s) < Len(y.s) THEN Len(x.s) ELSE Len(y.s)
             diff == {i \in 1..n : ~PyEq(x.s[i], y.s[i])}
         IN IF diff = {}
              THEN IF IntCmp(Len(x.s), Len(y.s), op) THEN "T" ELSE "F"
              ELSE LET i == CHOOSE j \in diff : \A m \in diff : j <= m
                   IN PyCmp(x.s[i], y.s[i], op)
  ELSE "E"

(***************************************************************************)
(* Paths.  A step is [k |-> key, i |-> -1] into a dict or                  *)
(* [k |-> "", i |-> index >= 0] into a list.                               *)
(***************************************************************************)
KStep(k) == [k |-> k, i |-> -1]
IStep(i) == [k |-> "", i |-> i]

HasStep(v, s) == IF s.i = -1 THEN IsD(v) /\ s.k \in DOMAIN v.m
                 ELSE IsL(v) /\ s.i < Len(v.s)
Child(v, s) == IF s.i = -1 THEN v.m[s.k] ELSE v.s[s.i + 1]

RECURSIVE Get(_, _)
Get(v, p) == IF p = <<>> THEN v
             ELSE IF HasStep(v, Head(p)) THEN Get(Child(v, Head(p)), Tail(p))
             ELSE Absent

RECURSIVE Put(_, _, _)
Put(v, p, new) ==
  IF p = <<>> THEN new
  ELSE LET s == Head(p) IN
       IF s.i = -1 THEN [v EXCEPT !.m[s.k] = Put(@, Tail(p), new)]
       ELSE [v EXCEPT !.s[s.i + 1] = Put(@, Tail(p), new)]

IsPrefix(p, q) == Len(p) <= Len(q) /\ SubSeq(q, 1, Len(p)) = p
IsStrictPrefix(p, q) == Len(p) < Len(q) /\ SubSeq(q, 1, Len(p)) = p

\* all container positions of a value (paths)
RECURSIVE ContainerPaths(_)
ContainerPaths(v) ==
  IF IsD(v) THEN {<<>>} \cup UNION {{<<KStep(k)>> \o q : q \in ContainerPaths(v.m[k])} : k \in DOMAIN v.m}
  ELSE IF IsL(v) THEN {<<>>} \cup UNION {{<<IStep(i - 1)>> \o q : q \in ContainerPaths(v.s[i])} : i \in 1..Len(v.s)}
  ELSE {}

(***************************************************************************)
(* Forbidden data.  fam \in {"json", "attr"}.  Returns "" (fine),          *)
(* or the class of the rejection the documentation promises.               *)
(***************************************************************************)
RECURSIVE Forbidden(_, _)
Forbidden(v, fam) ==
  IF IsD(v)
    THEN \/ \E k \in DOMAIN v.m : k \in NonStrKeys
         \/ fam = "attr" /\ \E k \in DOMAIN v.m : k \in DottedKeys
         \/ \E k \in DOMAIN v.m : Forbidden(v.m[k], fam)
  ELSE IF IsL(v) THEN \E i \in 1..Len(v.s) : Forbidden(v.s[i], fam)
  ELSE v.t = "x"
ForbiddenKey(k, fam) == k \in NonStrKeys \/ (fam = "attr" /\ k \in DottedKeys)

(***************************************************************************)
(* Generators of bounded value sets.                                       *)
(***************************************************************************)
Scalars(atoms) == {S(a) : a \in atoms}
DictsOver(keys, vals) == UNION {{D(f) : f \in [ks -> vals]} : ks \in SUBSET keys}
ListsOver(maxlen, vals) == UNION {{L(s) : s \in [1..n -> vals]} : n \in 0..maxlen}
RECURSIVE Vals(_, _, _, _)
Vals(depth, atoms, keys, maxlen) ==
  IF depth = 0 THEN Scalars(atoms)
  ELSE LET sub == Vals(depth - 1, atoms, keys, maxlen)
       IN sub \cup DictsOver(keys, sub) \cup ListsOver(maxlen, sub)

RECURSIVE Depth(_)
Max2(a, b) == IF a > b THEN a ELSE b
RECURSIVE SetMax(_)
SetMax(s) == IF s = {} THEN 0 ELSE LET x == CHOOSE y \in s : TRUE IN Max2(x, SetMax(s \ {x}))
Depth(v) == IF IsD(v) THEN 1 + SetMax({Depth(v.m[k]) : k \in DOMAIN v.m})
            ELSE IF IsL(v) THEN 1 + SetMax({Depth(v.s[i]) : i \in 1..Len(v.s)})
            ELSE 0
=============================================================================
