---------------------------- MODULE ResolverProof ----------------------------
(***************************************************************************)
(* Machine-checked proof (TLAPS): with the blocklist in place, every       *)
(* answer of get_type equals the value's own category after ANY number of  *)
(* earlier calls (C19 for histories of unbounded length; TLC enumerates    *)
(* all histories up to length 3 / 4).                                      *)
(***************************************************************************)
EXTENDS Resolver, TLAPS

ASSUME Assump == Blocklisted = TRUE /\ Dev_KeyByAddress = FALSE /\ MaxCalls \in Nat

\* what matters about FirstMatch: it does not depend on the instance unless the type is instance-dependent
LEMMA InstanceFree ==
  \A t \in Types : ~InstanceDependent(t) =>
     \A i, j \in Insts : FirstMatch([ty |-> t, inst |-> i]) = FirstMatch([ty |-> t, inst |-> j])
  BY DEF Types, StaticTypes, DynTypes, InstanceDependent, Insts, FirstMatch, Matches, Cats

\* (stronger than MemoSound: also for memoized types that are not alive - there are none, Death needs t \notin DOMAIN memo)
MemoSoundAll == \A t \in DOMAIN memo : \A i \in Insts : FirstMatch([ty |-> t, inst |-> i]) = memo[t]
IndInv ==
  /\ DOMAIN memo \subseteq Types
  /\ \A t \in DOMAIN memo : ~InstanceDependent(t)
  /\ MemoSoundAll
  /\ C19_HistoryIndependent
  /\ calls \in Nat

LEMMA InitInd == Init => IndInv
  BY DEF Init, IndInv, MemoSoundAll, C19_HistoryIndependent

LEMMA StepInd == IndInv /\ [Next]_rvars => IndInv'
<1> SUFFICES ASSUME IndInv, [Next]_rvars PROVE IndInv'
  OBVIOUS
<1>1. CASE UNCHANGED rvars
  BY <1>1 DEF rvars, IndInv, MemoSoundAll, C19_HistoryIndependent
<1>3. CASE \E t \in DynTypes : Death(t) \/ \E a \in DynAddrs : Birth(t, a)
  <2> memo' = memo /\ calls' = calls /\ last' = last
    BY <1>3 DEF Death, Birth
  <2> QED
    BY DEF IndInv, MemoSoundAll, C19_HistoryIndependent
<1>2. CASE \E v \in Values : GetType(v)
  <2> PICK v \in Values : GetType(v)
    BY <1>2
  <2> v.ty \in Types /\ v.inst \in Insts /\ v = [ty |-> v.ty, inst |-> v.inst]
    BY DEF Values
  <2> DEFINE r == IF v.ty \in DOMAIN memo THEN memo[v.ty] ELSE FirstMatch(v)
  <2>0. Key(v.ty) = v.ty
    BY Assump DEF Key
  <2>1. r = FirstMatch(v)
    BY DEF IndInv, MemoSoundAll
  <2>2. last' = [v |-> v, r |-> r] /\ calls' = calls + 1
    BY <2>0 DEF GetType
  <2>3. C19_HistoryIndependent'
    BY <2>1, <2>2 DEF C19_HistoryIndependent
  <2>4. CASE v.ty \in DOMAIN memo \/ InstanceDependent(v.ty)
    <3> memo' = memo
      BY <2>4, <2>0, Assump DEF GetType
    <3> QED
      BY <2>2, <2>3 DEF IndInv, MemoSoundAll
  <2>5. CASE ~(v.ty \in DOMAIN memo \/ InstanceDependent(v.ty))
    <3>1. memo' = [t \in DOMAIN memo \cup {v.ty} |-> IF t = v.ty THEN r ELSE memo[t]]
      BY <2>5, <2>0 DEF GetType
    <3>2. DOMAIN memo' = DOMAIN memo \cup {v.ty}
      BY <3>1
    <3>3. \A i \in Insts : FirstMatch([ty |-> v.ty, inst |-> i]) = r
      BY <2>1, <2>5, InstanceFree
    <3>4. MemoSoundAll'
      BY <3>1, <3>2, <3>3 DEF MemoSoundAll, IndInv
    <3> QED
      BY <2>2, <2>3, <2>5, <3>2, <3>4 DEF IndInv
  <2> QED
    BY <2>4, <2>5
<1> QED
  BY <1>1, <1>2, <1>3 DEF Next

THEOREM C19_Unbounded == Init /\ [][Next]_rvars => []C19_HistoryIndependent
<1>1. IndInv => C19_HistoryIndependent
  BY DEF IndInv
<1> QED
  BY InitInd, StepInd, <1>1, PTL
=============================================================================
