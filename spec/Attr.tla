---------------------------------- MODULE Attr ----------------------------------
(***************************************************************************)
(* Attribute access on attribute-access dicts (C18).                       *)
(* Names fall into classes:                                                *)
(*   "ordinary"    not protected, not a dunder, not a class attribute:     *)
(*                 obj.k / obj.k = v / del obj.k  ==  item access          *)
(*                 (missing key -> AttributeError)                         *)
(*   "protected"   in _PROTECTED_KEYS: always addresses the object itself  *)
(*   "dunder"      starts with "__": addresses the object itself           *)
(*   "classattr"   an attribute of the class (method, property): reading   *)
(*                 it yields the class attribute; writing is unspecified   *)
(* Item access with ANY name is plain dict access and never disturbs the   *)
(* object's internals.                                                     *)
(***************************************************************************)
EXTENDS Naturals, Sequences, FiniteSets, TLC, Json
CONSTANTS Names, Class     \* Class \in [Names -> {"ordinary", "protected", "dunder", "classattr"}]
VARIABLES data,            \* [subset of Names -> 1..2]   the dict content
          objattr,         \* [subset of Names -> 1..2]   attributes set on the object by the user
          last
avars == <<data, objattr, last>>

Put(f, n, v) == [m \in DOMAIN f \cup {n} |-> IF m = n THEN v ELSE f[m]]
Del(f, n) == [m \in DOMAIN f \ {n} |-> f[m]]
R(kind, name, how, ret) == [kind |-> kind, name |-> name, how |-> how, ret |-> ret]
OnObject(n) == Class[n] \in {"protected", "dunder"}

Init == data = [n \in {} |-> 1] /\ objattr = [n \in {} |-> 1] /\ last = R("init", "", "", "")

ItemSet(n, v) == data' = Put(data, n, v) /\ objattr' = objattr /\ last' = R("set", n, "item", "ok")
ItemGet(n) == UNCHANGED <<data, objattr>> /\
              last' = R("get", n, "item", IF n \in DOMAIN data THEN ToString(data[n]) ELSE "KeyError")
ItemDel(n) == IF n \in DOMAIN data
                THEN data' = Del(data, n) /\ objattr' = objattr /\ last' = R("del", n, "item", "ok")
                ELSE UNCHANGED <<data, objattr>> /\ last' = R("del", n, "item", "KeyError")

AttrSet(n, v) ==
  /\ Class[n] # "classattr"
  /\ IF OnObject(n) THEN objattr' = Put(objattr, n, v) /\ data' = data
                    ELSE data' = Put(data, n, v) /\ objattr' = objattr
  /\ last' = R("set", n, "attr", "ok")
AttrGet(n) ==
  /\ UNCHANGED <<data, objattr>>
  /\ last' = R("get", n, "attr",
               IF Class[n] = "classattr" THEN "classattr"
               ELSE IF OnObject(n) THEN (IF n \in DOMAIN objattr THEN "obj" \o ToString(objattr[n]) ELSE "object")
               ELSE IF n \in DOMAIN data THEN ToString(data[n]) ELSE "AttributeError")
AttrDel(n) ==
  /\ Class[n] = "ordinary"
  /\ IF n \in DOMAIN data
       THEN data' = Del(data, n) /\ objattr' = objattr /\ last' = R("del", n, "attr", "ok")
       ELSE UNCHANGED <<data, objattr>> /\ last' = R("del", n, "attr", "AttributeError")

\* another object / process rewrites the resource: the dict content becomes anything, the object is untouched.
\* Every other action is stated on the CURRENT data - the object's cached copy plays no role (the harness reaches
\* a share of the pre-states through this action: object loaded with other data, then the outside write).
Ext == /\ \E S \in SUBSET Names : \E d2 \in [S -> 1..2] : d2 # data /\ data' = d2
       /\ objattr' = objattr /\ last' = R("ext", "", "", "")

Next == \/ \E n \in Names : \/ \E v \in 1..2 : ItemSet(n, v) \/ AttrSet(n, v)
                            \/ ItemGet(n) \/ ItemDel(n) \/ AttrGet(n) \/ AttrDel(n)
        \/ Ext

\* item access never disturbs the object; attribute access to object names never changes the data
C18_ItemsNeverTouchObject == [][last'.how = "item" => objattr' = objattr]_avars
C18_ObjectNamesNeverTouchData == [][(last'.how = "attr" /\ OnObject(last'.name)) => data' = data]_avars
\* for ordinary names attribute access and item access are the same function of the data
C18_AttrEqualsItem ==
  [][(last'.how = "attr" /\ Class[last'.name] = "ordinary" /\ last'.kind = "get") =>
        last'.ret = (IF last'.name \in DOMAIN data THEN ToString(data[last'.name]) ELSE "AttributeError")]_avars
C18_OutsideWriteNeverTouchesObject == [][last'.kind = "ext" => objattr' = objattr]_avars
Export == last'.kind = "ext" \/ PrintT("EDGE " \o ToJson([data |-> data, objattr |-> objattr, last |-> last', data2 |-> data', objattr2 |-> objattr']))
view == <<data, objattr>>
=============================================================================
