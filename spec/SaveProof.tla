------------------------------ MODULE SaveProof ------------------------------
(***************************************************************************)
(* Machine-checked proof (TLAPS) that the ATOMIC save protocol of Save.tla *)
(* keeps every file wholly old or wholly new in EVERY reachable state, for *)
(* any number of files and any blob length - the unbounded complement of   *)
(* the TLC runs of MC_Save (1 and 3 files, BlobLen 2).                     *)
(***************************************************************************)
EXTENDS Save, TLAPS

ASSUME ConstAssump == NFiles \in Nat /\ BlobLen \in Nat /\ Atomic \in BOOLEAN /\ CanFail \in BOOLEAN

IndInv ==
  /\ cur \in Nat
  /\ Atomic => \A f \in 1..NFiles : Complete(target[f])
  /\ (Atomic /\ pc = "replace") => tmp = New(BlobLen)
  /\ target \in [1..NFiles -> [k : {"old", "new"}, n : Nat]]

LEMMA InitInd == Init => IndInv
  BY ConstAssump DEF Init, IndInv, Complete, Old, New

LEMMA StepInd == IndInv /\ [Next]_svars => IndInv'
<1> SUFFICES ASSUME IndInv, [Next]_svars PROVE IndInv'
  OBVIOUS
<1>1. CASE SerializeOK
  BY <1>1 DEF SerializeOK, IndInv, Complete, Old, New
<1>2. CASE SerializeFails
  BY <1>2 DEF SerializeFails, IndInv, Complete, Old, New
<1>3. CASE OpenTmp
  BY <1>3 DEF OpenTmp, IndInv, Complete, Old, New
<1>4. CASE OpenTrunc
  BY <1>4, ConstAssump DEF OpenTrunc, Running, IndInv, Complete, Old, New
<1>5. CASE \E n \in 1..BlobLen : WriteSome(n)
  BY <1>5, ConstAssump DEF WriteSome, Running, IndInv, Complete, Old, New
<1>6. CASE Close
  BY <1>6, ConstAssump DEF Close, Running, IndInv, Complete, Old, New
<1>7. CASE Replace
  BY <1>7, ConstAssump DEF Replace, Running, IndInv, Complete, Old, New
<1>8. CASE NextFile
  BY <1>8, ConstAssump DEF NextFile, Running, IndInv, Complete, Old, New
<1>9. CASE Crash
  BY <1>9 DEF Crash, IndInv, Complete, Old, New
<1>10. CASE UNCHANGED svars
  BY <1>10 DEF svars, IndInv, Complete, Old, New
<1> QED
  BY <1>1, <1>2, <1>3, <1>4, <1>5, <1>6, <1>7, <1>8, <1>9, <1>10 DEF Next

THEOREM AtomicSaveIsOldOrNew == Spec => []C08_OldOrNew
<1>1. IndInv => C08_OldOrNew
  BY DEF IndInv, C08_OldOrNew
<1> QED
  BY InitInd, StepInd, <1>1, PTL DEF Spec
=============================================================================
