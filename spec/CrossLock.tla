--------------------------------- MODULE CrossLock ---------------------------------
(***************************************************************************)
(* Lock skeleton of operations that READ one collection inside a WRITE of  *)
(* another: a.update(b), a[k] = b, a.reset(b) ... (C10).                   *)
(*                                                                         *)
(* Every collection (file) has a re-entrant lock; buffered classes have    *)
(* one class-wide buffer lock that every write takes FIRST; the class lock *)
(* is taken briefly whenever a merge creates a nested child object.        *)
(* A write of w with argument r:                                           *)
(*     [buffer lock]  file lock of w   load+merge w   READ r   save w      *)
(* and READ r = load r + in-place merge, which by design takes NO lock.    *)
(* Deviation Dev_MergeLocks (the code before fix 985c89e): the merge of a  *)
(* list that grew went through the public extend(), i.e. took r's file     *)
(* lock from inside the read.                                              *)
(* TLC checks deadlock freedom for all programs of two threads over two    *)
(* collections; with the deviation the unbuffered a.update(b) || b.update(a)*)
(* must deadlock (ABBA), while the buffered one must not (the buffer lock  *)
(* is a gate).                                                             *)
(***************************************************************************)
EXTENDS Naturals, Sequences, FiniteSets, TLC
CONSTANTS Dev_MergeLocks, Buffered
Threads == {"t1", "t2"}
Cols == {"a", "b"}
Locks == {"file_a", "file_b", "cls", "buf"}
FileLock(c) == IF c = "a" THEN "file_a" ELSE "file_b"
None == "none"

VARIABLES prog,     \* [thread -> [w, r]]: the collection written and the collection read inside that write
          pc, owner, count
vars == <<prog, pc, owner, count>>

Free(l, t) == owner[l] \in {None, t}
Acq(l, t) == /\ Free(l, t) /\ owner' = [owner EXCEPT ![l] = t] /\ count' = [count EXCEPT ![l] = @ + 1]
Rel(l, t) == /\ owner[l] = t
             /\ count' = [count EXCEPT ![l] = @ - 1]
             /\ owner' = [owner EXCEPT ![l] = IF count[l] = 1 THEN None ELSE t]
Goto(t, p) == pc' = [pc EXCEPT ![t] = p]

Init == /\ prog \in [Threads -> {[w |-> x, r |-> y] : x \in Cols, y \in Cols}]
        /\ pc = [t \in Threads |-> IF Buffered THEN "buf" ELSE "file"]
        /\ owner = [l \in Locks |-> None] /\ count = [l \in Locks |-> 0]

Step(t) ==
  LET w == prog[t].w  r == prog[t].r IN
  /\ UNCHANGED prog
  /\ \/ pc[t] = "buf" /\ Acq("buf", t) /\ Goto(t, "file")
     \/ pc[t] = "file" /\ Acq(FileLock(w), t) /\ Goto(t, "loadw_cls")
     \* load + merge of w: nested children are created under the class lock
     \/ pc[t] = "loadw_cls" /\ Acq("cls", t) /\ Goto(t, "loadw_cls_rel")
     \/ pc[t] = "loadw_cls_rel" /\ Rel("cls", t) /\ Goto(t, "read")
     \* READ r inside the write
     \/ pc[t] = "read" /\ (IF Dev_MergeLocks THEN Acq(FileLock(r), t) /\ Goto(t, "read_cls")
                           ELSE UNCHANGED <<owner, count>> /\ Goto(t, "read_cls"))
     \/ pc[t] = "read_cls" /\ Acq("cls", t) /\ Goto(t, "read_cls_rel")
     \/ pc[t] = "read_cls_rel" /\ Rel("cls", t) /\ Goto(t, "read_done")
     \/ pc[t] = "read_done" /\ (IF Dev_MergeLocks THEN Rel(FileLock(r), t) ELSE UNCHANGED <<owner, count>>) /\ Goto(t, "save")
     \/ pc[t] = "save" /\ Rel(FileLock(w), t) /\ Goto(t, IF Buffered THEN "buf_rel" ELSE "done")
     \/ pc[t] = "buf_rel" /\ Rel("buf", t) /\ Goto(t, "done")

AllDone == \A t \in Threads : pc[t] = "done"
Next == (\E t \in Threads : Step(t)) \/ (AllDone /\ UNCHANGED vars)
Spec == Init /\ [][Next]_vars

\* C10: when every operation has returned no lock is held (deadlock freedom itself is TLC's deadlock check)
C10_NoLockLeak == AllDone => \A l \in Locks : owner[l] = None /\ count[l] = 0
LockSanity == \A l \in Locks : (owner[l] = None) <=> (count[l] = 0)
=============================================================================
