----------------------------------- MODULE Sync -----------------------------------
(***************************************************************************)
(* Level 2: the sequential synchronisation MECHANISM of unbuffered         *)
(* collections (C01, C02, C04), on IDENTITIES.  Every root object keeps an *)
(* in-memory tree of node objects; a nested-child handle is a node OBJECT  *)
(* (an identity), not a path.  Every operation through a node object is    *)
(*     load the resource -> merge in place into the root's tree (Merge)    *)
(*     -> mutate the node object -> serialise the ROOT's tree -> store     *)
(* whether or not the node object is still part of the root's tree: a node *)
(* that the merge or an operation removed from the tree lives on as an     *)
(* ORPHAN with its own (stale) content (`forest`); operations through it   *)
(* change only the orphan and rewrite the root unchanged.                  *)
(*                                                                         *)
(* Exact identity rules (Mutate): setitem creates a new object at that     *)
(* position only; delitem/pop/insert SHIFT the list's objects; update and  *)
(* reset are the in-place merge; root clear()/reset() do not load.         *)
(* Level 1 (Contract.tla, PyOps!Destroys) only says which handles KEEP the *)
(* guarantee; this module says where every object really is, and the       *)
(* harness compares that with the real objects by `is` (syncrun.py).       *)
(*                                                                         *)
(* Deviation flag: Dev_NestedNoLoad = clear()/reset() on a nested node     *)
(* saved without loading (before fix a3a90cb).                             *)
(***************************************************************************)
EXTENDS Merge, PyOps, FiniteSets
CONSTANTS Objs, MaxId, Dev_NestedNoLoad
VARIABLES res,      \* plain document in the resource
          tree,     \* [Objs -> id-tree] (the root node of each object has id 1000 + index, never 0)
          forest,   \* set of id-trees: node objects (id # 0) that are no longer part of their root's tree
          held,     \* set of <<object, id>>: node objects retained by the user
          nextid, last
svars == <<res, tree, forest, held, nextid, last>>

RootId(o) == IF o = "o1" THEN 1001 ELSE 1002
\* position of the node with identity i in tree t (a set with at most one path)
RECURSIVE Where(_, _, _)
Where(t, i, p) ==
  IF ~Node(t) THEN {}
  ELSE (IF t.id = i THEN {p} ELSE {}) \cup
       (IF t.t = "d" THEN UNION {Where(t.m[k], i, p \o <<KStep(k)>>) : k \in DOMAIN t.m}
        ELSE UNION {Where(t.s[j], i, p \o <<IStep(j - 1)>>) : j \in 1..Len(t.s)})
In(t, i) == Where(t, i, <<>>) # {}
PathOf(t, i) == CHOOSE q \in Where(t, i, <<>>) : TRUE
RECURSIVE SetId(_, _, _)
SetId(t, p, i) == IF p = <<>> THEN [t EXCEPT !.id = i]
                  ELSE LET s == Head(p) IN
                       IF s.i = -1 THEN [t EXCEPT !.m[s.k] = SetId(@, Tail(p), i)]
                       ELSE [t EXCEPT !.s[s.i + 1] = SetId(@, Tail(p), i)]
RECURSIVE TreeAt(_, _)
TreeAt(t, p) == IF p = <<>> THEN t ELSE LET s == Head(p) IN
                IF s.i = -1 THEN TreeAt(t.m[s.k], Tail(p)) ELSE TreeAt(t.s[s.i + 1], Tail(p))
RECURSIVE PutTree(_, _, _)
PutTree(t, p, new) == IF p = <<>> THEN new ELSE LET s == Head(p) IN
                      IF s.i = -1 THEN [t EXCEPT !.m[s.k] = PutTree(@, Tail(p), new)]
                      ELSE [t EXCEPT !.s[s.i + 1] = PutTree(@, Tail(p), new)]
RECURSIVE ZeroIds(_)
ZeroIds(t) == IF ~Node(t) THEN t
              ELSE IF t.t = "d" THEN [t EXCEPT !.id = 0, !.m = [k \in DOMAIN t.m |-> ZeroIds(t.m[k])]]
              ELSE [t EXCEPT !.id = 0, !.s = [j \in 1..Len(t.s) |-> ZeroIds(t.s[j])]]
\* Level-1 fallback for operations without an exact rule below: what PyOps!Destroys names is a new object
Remake(node, op, out) ==
  LET m == [MergeTree(node, out.val) EXCEPT !.id = node.id]
      ds == Destroys(PlainOf(node), op, out)
  IN IF m.t = "d" THEN [m EXCEPT !.m = [k \in DOMAIN m.m |-> IF ds.all \/ KStep(k) \in ds.steps THEN ZeroIds(m.m[k]) ELSE m.m[k]]]
     ELSE [m EXCEPT !.s = [j \in 1..Len(m.s) |-> IF ds.all \/ IStep(j - 1) \in ds.steps THEN ZeroIds(m.s[j]) ELSE m.s[j]]]

(***************************************************************************)
(* The node object after the operation, BY IDENTITY                        *)
(***************************************************************************)
NIdx(i, n) == IF i < 0 THEN i + n ELSE i
Clamp(i, n) == LET j == NIdx(i, n) IN IF j < 0 THEN 0 ELSE IF j > n THEN n ELSE j
Raised(out) == "e" \in DOMAIN out.ret
Mutate(node, op, out) ==
  IF Raised(out) /\ out.val = PlainOf(node) THEN node
  ELSE IF op.op \in {"reset", "update"} THEN [MergeTree(node, out.val) EXCEPT !.id = node.id]   \* _update(): in-place merge
  ELSE IF op.op = "clear" THEN (IF node.t = "d" THEN [node EXCEPT !.m = EF] ELSE [node EXCEPT !.s = <<>>])
  ELSE IF node.t = "d" THEN
         IF op.op = "setitem" /\ ~Raised(out)
           THEN [node EXCEPT !.m = [k \in DOMAIN out.val.m |-> IF k = op.k THEN FreshTree(out.val.m[k]) ELSE node.m[k]]]
         ELSE IF op.op \in {"delitem", "pop", "popitem"} /\ ~Raised(out)
           THEN [node EXCEPT !.m = [k \in DOMAIN out.val.m |-> node.m[k]]]
         ELSE IF op.op = "setdefault" /\ ~Raised(out)       \* a new object only when the key was absent
           THEN [node EXCEPT !.m = [k \in DOMAIN out.val.m |-> IF k \in DOMAIN node.m THEN node.m[k] ELSE FreshTree(out.val.m[k])]]
         ELSE Remake(node, op, out)
  ELSE LET n == Len(node.s) IN
         IF op.op = "setitem" /\ ~Raised(out)
           THEN LET j == NIdx(op.i, n) + 1 IN [node EXCEPT !.s[j] = FreshTree(out.val.s[j])]
         ELSE IF op.op \in {"delitem", "pop"} /\ ~Raised(out)
           THEN LET j == NIdx(IF op.i = NONE THEN -1 ELSE op.i, n) + 1
                IN [node EXCEPT !.s = [q \in 1..(n - 1) |-> IF q < j THEN node.s[q] ELSE node.s[q + 1]]]
         ELSE IF op.op = "insert" /\ ~Raised(out)
           THEN LET j == Clamp(op.i, n) + 1
                IN [node EXCEPT !.s = [q \in 1..(n + 1) |-> IF q < j THEN node.s[q] ELSE IF q = j THEN FreshTree(op.x) ELSE node.s[q - 1]]]
         ELSE IF op.op = "append" /\ ~Raised(out) THEN [node EXCEPT !.s = Append(node.s, FreshTree(op.x))]
         ELSE IF op.op \in {"extend", "iadd"} /\ ~Raised(out)
           THEN [node EXCEPT !.s = node.s \o [q \in 1..Len(op.x.s) |-> FreshTree(op.x.s[q])]]
         ELSE IF op.op = "reverse" THEN [node EXCEPT !.s = [q \in 1..n |-> node.s[n + 1 - q]]]
         ELSE IF op.op = "remove" /\ ~Raised(out)           \* the FIRST equal element goes, the others shift
           THEN LET Without(j) == [q \in 1..(n - 1) |-> IF q < j THEN node.s[q] ELSE node.s[q + 1]]
                    cand == {j \in 1..n : PlainOf([node EXCEPT !.s = Without(j)]) = out.val}
                    j == CHOOSE c \in cand : \A d \in cand : c <= d
                IN [node EXCEPT !.s = Without(j)]
         ELSE Remake(node, op, out)

(***************************************************************************)
(* Orphans: retained node objects that a change of tree `told' into `tnew'  *)
(* removed; the topmost ones keep their subtree as it was in `told'         *)
(***************************************************************************)
HeldIn(o, t) == {i \in {h[2] : h \in {x \in held : x[1] = o}} : In(t, i)}
PrefixOf(p, q) == Len(p) <= Len(q) /\ SubSeq(q, 1, Len(p)) = p
Lost(o, told, tnew) == {i \in HeldIn(o, told) : ~In(tnew, i)}
NewOrphans(o, told, tnew) ==
  LET lost == Lost(o, told, tnew)
      top == {i \in lost : \A j \in lost \ {i} : ~PrefixOf(PathOf(told, j), PathOf(told, i))}
  IN {TreeAt(told, PathOf(told, i)) : i \in top}

Loaded(o) == [MergeTree(tree[o], res) EXCEPT !.id = RootId(o)]
\* the kind of a node object never changes: find it wherever it is now
NodeNow(o, i) == IF In(tree[o], i) THEN TreeAt(tree[o], PathOf(tree[o], i))
                 ELSE LET f == CHOOSE g \in forest : In(g, i) IN TreeAt(f, PathOf(f, i))
Known(o, i) == i = RootId(o) \/ <<o, i>> \in held

\* a public operation through the node object <<o, i>>; given # 0: the argument x was passed as the retained
\* node object <<o, given>> itself (AssignNode) - recorded for the harness, the effect is that of its content
Do(o, i, op, given) ==
  /\ Known(o, i)
  /\ LET isroot == i = RootId(o)
         kind == NodeNow(o, i).t
         prefail == op.op = "reset" /\ op.x.t # kind        \* rejected before anything is loaded
         skipload == op.op \in {"clear", "reset"} /\ (isroot \/ Dev_NestedNoLoad)
         t1 == IF skipload \/ prefail THEN tree[o] ELSE Loaded(o)
         f1 == forest \cup NewOrphans(o, tree[o], t1)
     IN IF prefail
          THEN /\ UNCHANGED <<tree, forest, res>>
               /\ last' = [a |-> "do", o |-> o, i |-> i, op |-> op, attached |-> In(tree[o], i), path |-> <<>>, pre |-> TRUE, given |-> given,
                           ret |-> Err("ValueError"), before |-> res, okplain |-> TRUE]
        ELSE IF In(t1, i)
          THEN LET p == PathOf(t1, i)
                   node == TreeAt(t1, p)
               IN \E out \in Apply(PlainOf(node), op, "json") :
                    LET n2 == Mutate(node, op, out)
                        t2 == IF IsRead(op.op) THEN t1 ELSE PutTree(t1, p, n2)
                    IN /\ tree' = [tree EXCEPT ![o] = t2]
                       /\ forest' = f1 \cup NewOrphans(o, t1, t2)
                       /\ res' = IF IsRead(op.op) THEN res ELSE PlainOf(t2)
                       /\ last' = [a |-> "do", o |-> o, i |-> i, op |-> op, attached |-> TRUE, path |-> p, pre |-> FALSE, given |-> given,
                                   ret |-> out.ret, before |-> res, okplain |-> IsRead(op.op) \/ PlainOf(n2) = out.val]
          ELSE \* an orphan: the operation changes the orphan's own data; the root is loaded and saved as it is
               LET f == CHOOSE g \in f1 : In(g, i)
                   p == PathOf(f, i)
                   node == TreeAt(f, p)
               IN \E out \in Apply(PlainOf(node), op, "json") :
                    LET n2 == Mutate(node, op, out)
                        f2 == IF IsRead(op.op) THEN f ELSE PutTree(f, p, n2)
                        lost == {j \in {h[2] : h \in held} : In(f, j) /\ ~In(f2, j)}
                        top == {j \in lost : \A k \in lost \ {j} : ~PrefixOf(PathOf(f, k), PathOf(f, j))}
                    IN /\ tree' = [tree EXCEPT ![o] = t1]
                       /\ forest' = ((f1 \ {f}) \cup {f2}) \cup {TreeAt(f, PathOf(f, j)) : j \in top}
                       /\ res' = IF IsRead(op.op) THEN res ELSE PlainOf(t1)
                       /\ last' = [a |-> "do", o |-> o, i |-> i, op |-> op, attached |-> FALSE, path |-> <<>>, pre |-> FALSE, given |-> given,
                                   ret |-> out.ret, before |-> res, okplain |-> IsRead(op.op) \/ PlainOf(n2) = out.val]
  /\ UNCHANGED <<held, nextid>>

\* d[k] = node / l.append(node): a retained node object of the same root is passed as the value.  The library
\* stores a COPY of the content the node has when the operation runs (a new object); the node stays where it is.
ContentAtCall(o, j) ==
  LET t1 == Loaded(o)
      f1 == forest \cup NewOrphans(o, tree[o], t1)
  IN IF In(t1, j) THEN PlainOf(TreeAt(t1, PathOf(t1, j)))
     ELSE LET g == CHOOSE h \in f1 : In(h, j) IN PlainOf(TreeAt(g, PathOf(g, j)))
AssignNode(o, i, k, j) ==
  /\ Known(o, i) /\ <<o, j>> \in held /\ j # i
  /\ LET x == ContentAtCall(o, j) IN
     IF NodeNow(o, i).t = "d" THEN Do(o, i, [op |-> "setitem", k |-> k, x |-> x], j)
     ELSE Do(o, i, [op |-> "append", x |-> x], j)

\* the user keeps the child object found at step s below the node <<o, i>> (a read: loads first)
Nav(o, i, s) ==
  /\ nextid <= MaxId
  /\ Known(o, i)
  /\ LET t1 == Loaded(o)
         f1 == forest \cup NewOrphans(o, tree[o], t1)
         inroot == In(t1, i)
         f == IF inroot THEN t1 ELSE CHOOSE g \in f1 : In(g, i)
         p == PathOf(f, i)
         node == TreeAt(f, p) IN
     /\ HasStep(PlainOf(node), s) /\ Node(Child(node, s))
     /\ LET q == p \o <<s>>
            c == TreeAt(f, q)
            id2 == IF c.id = 0 THEN nextid ELSE c.id
            g2 == SetId(f, q, id2)
        IN /\ tree' = [tree EXCEPT ![o] = IF inroot THEN g2 ELSE t1]
           /\ forest' = IF inroot THEN f1 ELSE (f1 \ {f}) \cup {g2}
           /\ held' = held \cup {<<o, id2>>}
           /\ nextid' = IF c.id = 0 THEN nextid + 1 ELSE nextid
           /\ last' = [a |-> "nav", o |-> o, i |-> i, s |-> s, id |-> id2, attached |-> inroot, path |-> q, ret |-> Null, before |-> res]
  /\ res' = res
Ext(v) == /\ v # res /\ res' = v /\ UNCHANGED <<tree, forest, held, nextid>>
          /\ last' = [a |-> "ext", attached |-> TRUE, path |-> <<>>, ret |-> Null, before |-> res]

Init0(d0) == /\ res = d0 /\ tree = [o \in Objs |-> [FreshTree(d0) EXCEPT !.id = RootId(o)]]
             /\ forest = {} /\ held = {} /\ nextid = 1 /\ last = [a |-> "init", attached |-> TRUE]

(***************************************************************************)
(* C04 / C01 / C02 stated on the mechanism                                 *)
(***************************************************************************)
\* the Level-1 effect of the last operation on the content the resource had BEFORE it
C04_AppliedToCurrent ==
  (last.a = "do" /\ last.attached /\ ~last.pre /\ ~IsRead(last.op.op)) =>
     \E out \in Apply(Get(last.before, last.path), last.op, "json") :
        res = Put(last.before, last.path, out.val) /\ out.ret = last.ret
C02_ReadsCurrent ==
  (last.a = "do" /\ last.attached /\ ~last.pre /\ IsRead(last.op.op)) =>
     \E out \in Apply(Get(res, last.path), last.op, "json") : out.ret = last.ret
\* an orphaned node never disturbs the rest of the document; a rejected call changes nothing
C04_OrphanHarmless == (last.a = "do" /\ (~last.attached \/ last.pre)) => res = last.before
\* the identity rules of Mutate produce exactly the content PyOps!Apply prescribes
Mech_MutateMatchesApply == last.a = "do" => last.okplain
\* every retained node object is in exactly one place: its root's tree or one orphan
Mech_OnePlace ==
  \A h \in held : LET n == Cardinality({g \in forest : In(g, h[2])}) + (IF In(tree[h[1]], h[2]) THEN 1 ELSE 0)
                  IN n = 1
=============================================================================
