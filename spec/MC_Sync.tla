-------------------------------- MODULE MC_Sync --------------------------------
(***************************************************************************)
(* Bounded instance of Sync.tla: two root objects on one resource, retained *)
(* node objects, an outside writer.  BFS with VIEW View (history hidden);   *)
(* the properties are action properties, i.e. evaluated on EVERY edge.      *)
(* hist = the path on which the source state was first found (a shortest    *)
(* path) extended by the edge: every SampleK-th is exported (ExportPath)    *)
(* and replayed on the real classes with identity comparison.               *)
(***************************************************************************)
EXTENDS Sync, Json
CONSTANTS MaxSteps, Kind, SampleK, Wide     \* Wide: the larger operation menu
VARIABLES steps, hist
mcvars == <<res, tree, forest, held, nextid, last, steps, hist>>
Docs == IF Kind = "d" THEN {D([a |-> D([a |-> S("i1")])]), D([a |-> L(<<S("i1")>>), b |-> S("i1")]), D([a |-> D([b |-> L(<<>>)])])}
        ELSE {L(<<D([a |-> S("i1")])>>), L(<<L(<<S("i1")>>), S("i1")>>), L(<<D([b |-> L(<<>>)])>>)}
ArgVals == {S("i1"), EmptyD, D([a |-> S("n")]), L(<<S("i1")>>)}
OpNames == {"setitem", "delitem", "clear", "reset", "update", "append", "pop", "insert", "call", "getitem", "len", "setdefault"}
           \cup (IF Wide THEN {"popitem", "extend", "iadd", "reverse", "remove"} ELSE {})
Menu(v) == LET all == IF IsD(v) THEN DictOps({"a", "b"}, ArgVals, {EmptyD}) ELSE ListOps({0, -1}, {<<1, NONE, NONE>>}, ArgVals, {EmptyL})
           IN {o \in all : o.op \in OpNames /\ ("y" \in DOMAIN o => (o.y = Null \/ o.op = "setdefault"))}
HIds(o) == {RootId(o)} \cup {h[2] : h \in {x \in held : x[1] = o}}
\* the menu is chosen for the content the node object will have when the operation runs
NodePlain(o, i) == LET t1 == Loaded(o) IN IF In(t1, i) THEN PlainOf(TreeAt(t1, PathOf(t1, i))) ELSE PlainOf(NodeNow(o, i))
\* what the harness compares after every step: the resource, every object's in-memory image (no load) and the
\* position, by IDENTITY, of every retained node object in its root's in-memory tree
Obs == [last |-> last, res |-> res, mem |-> [o \in Objs |-> PlainOf(tree[o])],
        pos |-> {[o |-> h[1], i |-> h[2], at |-> Where(tree[h[1]], h[2], <<>>), img |-> PlainOf(NodeNow(h[1], h[2]))] : h \in held}]
MCInit == (\E d0 \in Docs : Init0(d0)) /\ steps = 0 /\ hist = <<[last |-> [a |-> "init"], res |-> res]>>
MCNext == /\ steps' = steps + 1
          /\ \/ \E o \in Objs : \E i \in HIds(o) : \E op \in Menu(NodePlain(o, i)) : Do(o, i, op, 0)
             \/ \E o \in Objs : \E i \in HIds(o) : \E k \in {"a", "b"} : Nav(o, i, KStep(k))
             \/ \E o \in Objs : \E i \in HIds(o) : Nav(o, i, IStep(0))
             \/ \E v \in Docs : Ext(v)
             \/ \E o \in Objs : \E i \in HIds(o) : \E j \in HIds(o) \ {RootId(o)} : \E k \in {"a", "b"} : AssignNode(o, i, k, j)
          /\ hist' = Append(hist, Obs')
RECURSIVE Short(_)
Short(v) == IF IsL(v) THEN Len(v.s) <= 2 /\ \A j \in 1..Len(v.s) : Short(v.s[j])
            ELSE IF IsD(v) THEN \A k \in DOMAIN v.m : Short(v.m[k]) ELSE TRUE
Bounded == TLCGet("level") <= MaxSteps /\ Depth(res) <= 3 /\ Short(res)
\* `last' and `steps' are history: hidden from the fingerprint; the properties are checked on every EDGE
View == <<res, tree, forest, held, nextid>>
P_C04_AppliedToCurrent == [][C04_AppliedToCurrent']_mcvars
P_C02_ReadsCurrent == [][C02_ReadsCurrent']_mcvars
P_C04_OrphanHarmless == [][C04_OrphanHarmless']_mcvars
P_Mech_MutateMatchesApply == [][Mech_MutateMatchesApply']_mcvars
\* operations through orphans are rare: they are sampled ten times as often
ExportPath == (SampleK <= 1 \/ RandomElement(1..SampleK) = 1
               \/ (last'.a = "do" /\ ~last'.attached /\ RandomElement(1..(SampleK \div 10 + 1)) = 1))
              => PrintT("SYH " \o ToJson(hist'))
=============================================================================
