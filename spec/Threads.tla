--------------------------------- MODULE Threads ---------------------------------
(***************************************************************************)
(* Level 2: the synchronisation mechanism of JSON collections under        *)
(* threads (C09, C10, C14) - one action per critical step of the code:     *)
(* buffer-lock / collection-lock acquire and release, the suspend-counter  *)
(* test, load from the file, suspend-counter enter / exit around the       *)
(* in-place merge, the mutation, the save (atomic replace).                *)
(*                                                                         *)
(* One file; objects o1, o2 bound to it (each with its own in-memory       *)
(* cache and suspend counter); every thread performs one operation         *)
(*   [o, kind, k]   kind \in {"add", "del", "clear", "read"}               *)
(* Documents are abstracted to the set of keys present.                    *)
(*                                                                         *)
(* Deviation flags name what the code does / did differently from the      *)
(* intended design; TLC must find the properties to hold with the flags of *)
(* the intended design and must produce a witness for every deviation.     *)
(***************************************************************************)
EXTENDS Naturals, Sequences, FiniteSets, TLC, Json

CONSTANTS Threads_, Buffered,
          Dev_ReadersLockFree,       \* reads take no lock but merge into the shared cache and bump the shared counter
          Dev_RootClearUnlocked,     \* clear() rebinds the data before taking the lock (before fix 9ce354b)
          Dev_LeakOnLoadFailure,     \* the lock stays held when the load raises (before fix dd854c6)
          Dev_ClearLockOrderInverted,\* buffered clear(): collection lock first, buffer lock inside the save
          WithFaults                 \* a load may raise (unparsable file)
VARIABLES prog,      \* [Threads_ -> operation]
          res,       \* keys in the file
          cache,     \* [Objs -> keys in the object's memory]
          susp,      \* [Objs -> suspend counter]
          flock, block,   \* collection (file) lock and class-wide buffer lock: [owner, n]
          pc, loc,   \* per thread: program counter, locals [data, ret]
          trace      \* sequence of <<thread, step>> (history variable, hidden by the VIEW)
tvars == <<prog, res, cache, susp, flock, block, pc, loc, trace>>
tview == <<prog, res, cache, susp, flock, block, pc, loc>>

Objs == {"o1", "o2"}
Keys == {"a", "b"}
Free == [owner |-> "", n |-> 0]
Kinds == {"add", "del", "clear", "read"}
Ops == {[o |-> o, kind |-> kd, k |-> k] : o \in Objs, kd \in Kinds, k \in Keys}

Apply(s, op) == CASE op.kind = "add" -> s \cup {op.k} [] op.kind = "del" -> s \ {op.k}
                  [] op.kind = "clear" -> {} [] OTHER -> s
Ret(s, op) == IF op.kind = "read" THEN (IF op.k \in s THEN "T" ELSE "F")
              ELSE IF op.kind = "del" THEN (IF op.k \in s THEN "T" ELSE "F") ELSE "n"

CanTake(l, t) == l.owner = "" \/ l.owner = t
Take(l, t) == [owner |-> t, n |-> l.n + 1]
Drop(l) == IF l.n = 1 THEN Free ELSE [l EXCEPT !.n = @ - 1]

Init0 == {"a"}
Init == /\ prog \in [Threads_ -> Ops]
        /\ res = Init0 /\ cache = [o \in Objs |-> Init0] /\ susp = [o \in Objs |-> 0]
        /\ flock = Free /\ block = Free
        /\ pc = [t \in Threads_ |-> "start"]
        /\ loc = [t \in Threads_ |-> [data |-> {}, ret |-> "", raised |-> FALSE]]
        /\ trace = <<>>

Op(t) == prog[t]
O(t) == prog[t].o
IsWriter(t) == Op(t).kind \in {"add", "del"}
IsClear(t) == Op(t).kind = "clear"
IsReader(t) == Op(t).kind = "read"
Locked(t) == ~IsReader(t) \/ ~Dev_ReadersLockFree        \* does the operation run under the collection lock?

Go(t, step, next) == /\ pc' = [pc EXCEPT ![t] = next] /\ trace' = Append(trace, <<t, step>>)

\* ---- steps
Start(t) ==
  /\ pc[t] = "start"
  /\ IF IsClear(t) /\ Dev_RootClearUnlocked
       THEN /\ cache' = [cache EXCEPT ![O(t)] = {}]           \* the data are rebound before any lock is taken
            /\ Go(t, "mutate", "acqF") /\ UNCHANGED <<prog, res, susp, flock, block, loc>>
       ELSE /\ Go(t, "start", IF ~Locked(t) THEN "chk1"
                              ELSE IF Buffered /\ ~(IsClear(t) /\ Dev_ClearLockOrderInverted) THEN "acqB" ELSE "acqF")
            /\ UNCHANGED <<prog, res, cache, susp, flock, block, loc>>
AcqB(t) == /\ pc[t] = "acqB" /\ CanTake(block, t) /\ block' = Take(block, t)
           /\ Go(t, "acquireB", IF IsClear(t) /\ Dev_ClearLockOrderInverted THEN "chk2" ELSE "acqF")
           /\ UNCHANGED <<prog, res, cache, susp, flock, loc>>
AcqF(t) == /\ pc[t] = "acqF" /\ CanTake(flock, t) /\ flock' = Take(flock, t)
           /\ Go(t, "acquireF", IF IsClear(t) THEN (IF Dev_RootClearUnlocked THEN "chk2" ELSE "mut")
                                ELSE "chk1")
           /\ UNCHANGED <<prog, res, cache, susp, block, loc>>
Chk1(t) == /\ pc[t] = "chk1"
           /\ Go(t, "loadchk", IF susp[O(t)] = 0 THEN "load" ELSE (IF IsReader(t) THEN "read" ELSE "mut"))
           /\ UNCHANGED <<prog, res, cache, susp, flock, block, loc>>
Load(t) == /\ pc[t] = "load" /\ loc' = [loc EXCEPT ![t].data = res]
           /\ Go(t, "load", "inc") /\ UNCHANGED <<prog, res, cache, susp, flock, block>>
LoadFails(t) ==
  /\ WithFaults /\ pc[t] = "load" /\ ~IsReader(t)
  /\ loc' = [loc EXCEPT ![t].raised = TRUE]
  /\ IF Dev_LeakOnLoadFailure THEN UNCHANGED <<flock, block>>
     ELSE /\ flock' = IF flock.owner = t THEN Drop(flock) ELSE flock
          /\ block' = IF block.owner = t THEN Drop(block) ELSE block
  /\ Go(t, "loadfails", "done") /\ UNCHANGED <<prog, res, cache, susp>>
Inc(t) == /\ pc[t] = "inc" /\ susp' = [susp EXCEPT ![O(t)] = @ + 1]
          /\ Go(t, "susp+", "merge") /\ UNCHANGED <<prog, res, cache, flock, block, loc>>
Merge(t) == /\ pc[t] = "merge" /\ cache' = [cache EXCEPT ![O(t)] = loc[t].data]
            /\ Go(t, "merge", "dec") /\ UNCHANGED <<prog, res, susp, flock, block, loc>>
Dec(t) == /\ pc[t] = "dec" /\ susp' = [susp EXCEPT ![O(t)] = @ - 1]
          /\ Go(t, "susp-", IF IsReader(t) THEN "read" ELSE "mut")
          /\ UNCHANGED <<prog, res, cache, flock, block, loc>>
Read(t) == /\ pc[t] = "read" /\ loc' = [loc EXCEPT ![t].ret = Ret(cache[O(t)], Op(t))]
           /\ Go(t, "read", IF Locked(t) THEN "relF" ELSE "done")
           /\ UNCHANGED <<prog, res, cache, susp, flock, block>>
Mut(t) == /\ pc[t] = "mut"
          /\ loc' = [loc EXCEPT ![t].ret = Ret(cache[O(t)], Op(t))]
          /\ cache' = [cache EXCEPT ![O(t)] = Apply(@, Op(t))]
          /\ Go(t, "mutate", "chk2") /\ UNCHANGED <<prog, res, susp, flock, block>>
Chk2(t) == /\ pc[t] = "chk2"
           /\ Go(t, "savechk", IF susp[O(t)] # 0 THEN "relF"
                               ELSE IF Buffered /\ IsClear(t) /\ Dev_ClearLockOrderInverted /\ block.owner # t THEN "acqB"
                               ELSE "save")
           /\ UNCHANGED <<prog, res, cache, susp, flock, block, loc>>
Save(t) == /\ pc[t] = "save" /\ res' = cache[O(t)]
           /\ Go(t, "save", IF Buffered /\ IsClear(t) /\ Dev_ClearLockOrderInverted THEN "relB" ELSE "relF")
           /\ UNCHANGED <<prog, cache, susp, flock, block, loc>>
RelF(t) == /\ pc[t] = "relF" /\ flock.owner = t /\ flock' = Drop(flock)
           /\ Go(t, "releaseF", IF Buffered /\ block.owner = t THEN "relB" ELSE "done")
           /\ UNCHANGED <<prog, res, cache, susp, block, loc>>
RelB(t) == /\ pc[t] = "relB" /\ block.owner = t /\ block' = Drop(block)
           /\ Go(t, "releaseB", IF flock.owner = t THEN "relF" ELSE "done")
           /\ UNCHANGED <<prog, res, cache, susp, flock, loc>>

AllDone == \A t \in Threads_ : pc[t] = "done"
Finished == AllDone /\ UNCHANGED tvars
Step(t) == Start(t) \/ AcqB(t) \/ AcqF(t) \/ Chk1(t) \/ Load(t) \/ LoadFails(t) \/ Inc(t) \/ Merge(t) \/ Dec(t)
           \/ Read(t) \/ Mut(t) \/ Chk2(t) \/ Save(t) \/ RelF(t) \/ RelB(t)
Next == (\E t \in Threads_ : Step(t)) \/ Finished

(***************************************************************************)
(* Properties                                                              *)
(***************************************************************************)
\* C10: when every operation has returned or raised, no lock is held
C10_NoLockLeak == AllDone => flock = Free /\ block = Free
\* (no deadlock = TLC's deadlock check: some thread can always step until AllDone)

\* C09 / C14: results and final content are those of some serial order (operations that raised excluded)
RECURSIVE SerialRun(_, _, _)
SerialRun(order, s, rets) ==
  IF order = <<>> THEN [res |-> s, rets |-> rets]
  ELSE LET t == Head(order) IN
       IF loc[t].raised THEN SerialRun(Tail(order), s, rets)
       ELSE SerialRun(Tail(order), Apply(s, prog[t]), [rets EXCEPT ![t] = Ret(s, prog[t])])
Perms == {p \in [1..Cardinality(Threads_) -> Threads_] : \A i, j \in DOMAIN p : i # j => p[i] # p[j]}
Linearizable ==
  AllDone => \E p \in Perms :
               LET r == SerialRun(p, Init0, [t \in Threads_ |-> ""])
               IN r.res = res /\ \A t \in Threads_ : loc[t].raised \/ r.rets[t] = loc[t].ret
WritersOnly == \A t \in Threads_ : prog[t].kind # "read"
ReaderAndWriterShareObject == \E t1, t2 \in Threads_ : prog[t1].kind = "read" /\ prog[t2].kind # "read" /\ prog[t1].o = prog[t2].o
C09_WritersLinearizable == WritersOnly => Linearizable
C14_ReadersLinearizable == Linearizable
\* readers on another object than every writer (two objects, one file) are always fine
C14_TwoObjectsLinearizable == ~ReaderAndWriterShareObject => Linearizable

ExportDone == AllDone => PrintT("SCHED " \o ToJson([prog |-> prog, trace |-> trace, res |-> res,
                                                      rets |-> [t \in Threads_ |-> loc[t].ret]]))
=============================================================================
