-------------------------------- MODULE TraceBuf --------------------------------
(***************************************************************************)
(* Trace validation against BufContract: is a recorded execution of the    *)
(* real buffered classes a behaviour of the Level-1 specification?         *)
(*                                                                         *)
(* IOEnv.TRACE_FILE is a JSON array of traces                              *)
(*   [init |-> [docs, ex, cap], ev |-> << event, ... >>]                   *)
(* an event = the input that was executed + everything observed after it:  *)
(*   in     the input (as exported by MC_BufContract!InputOf)              *)
(*   ret    returned value / raised exception of an operation              *)
(*   errs   files named by a MetadataError / BufferedError, kind its class *)
(*   files  per file: doc, ex, w (was it (re)written during the step)      *)
(*   size, cap   reported buffer size and capacity                         *)
(* Every trace is an initial state (tid); each step consumes one event:    *)
(* the matching BufContract action with the logged inputs, constrained by  *)
(* the logged observations; what was not logged (the buffered copies) is   *)
(* inferred by TLC.  A trace is accepted iff all its events are consumed.  *)
(* Relax names one observation clause to ignore (used to name the failing  *)
(* clause of a rejected trace).                                            *)
(***************************************************************************)
EXTENDS BufContract, Json, IOUtils, TLCExt
CONSTANTS Scen, Relax
VARIABLES tid, l
tvars == <<file, buf, stk, cap, last, tid, l>>

TFiles == IF Scen \in {"multi", "two"} THEN {"f1", "f2"} ELSE {"f1"}
TObjs == CASE Scen = "one" -> {"A"} [] Scen = "shared" -> {"A", "B"} [] Scen = "two" -> {"A", "C"}
           [] OTHER -> {"A", "B", "C"}
TFileOf == [o \in TObjs |-> IF o = "C" THEN "f2" ELSE "f1"]

Traces == JsonDeserialize(IOEnv.TRACE_FILE)

\* rebuild a deserialized value in the spec's own representation
RECURSIVE Norm(_)
Norm(v) == IF v.t = "d" THEN D([k \in DOMAIN v.m |-> Norm(v.m[k])])
           ELSE IF v.t = "l" THEN L([i \in 1..Len(v.s) |-> Norm(v.s[i])])
           ELSE [t |-> v.t]
NormOp(o) == [f \in DOMAIN o |-> IF f \in {"x", "y"} THEN Norm(o[f]) ELSE o[f]]
ToSet(q) == {q[i] : i \in 1..Len(q)}

Ev == Traces[tid].ev[l]

RetOK(m, g) ==
  \/ Relax = "ret"
  \/ IF m.t = "!" THEN /\ g.t = "!"
                       /\ \/ m.e = g.e
                          \/ m.e = "Rejected" /\ g.e \in {"TypeError", "ValueError"}
                       /\ (m.e = "BufferedError" => m.files = ToSet(g.files))
     ELSE IF m.t = "keys" THEN g.t = "keys" /\ m.ks = ToSet(g.ks) /\ Len(g.ks) = Cardinality(m.ks)
     ELSE IF m.t = "items" THEN g.t = "items" /\ D(m.m) = Norm([t |-> "d", m |-> g.m])
     ELSE IF m.t = "self" THEN g.t = "self"
     ELSE g.t \notin {"!", "keys", "items", "self"} /\ m = Norm(g)

ErrsOK(act) ==
  \/ Relax = "err"
  \/ /\ last'.errs = ToSet(Ev.errs)
     /\ Ev.kind = (IF last'.errs = {} THEN "" ELSE IF act = "exitO" THEN "MetadataError" ELSE "BufferedError")

ObsOK ==
  /\ \A r \in Files :
       /\ Relax = "files" \/ (file'[r].doc = Norm(Ev.files[r].doc) /\ file'[r].ex = Ev.files[r].ex)
       /\ Relax = "w" \/ ((file'[r].ver # file[r].ver) = Ev.files[r].w)
  /\ Relax = "size" \/ SizeOf(buf') = Ev.size
  /\ Relax = "cap" \/ cap' = Ev.cap

TStep ==
  /\ l <= Len(Traces[tid].ev)
  /\ LET i == Ev.in IN
     \/ i.a = "op" /\ Op(i.o, NormOp(i.op)) /\ RetOK(last'.ret, Ev.ret)
     \/ i.a = "enterO" /\ EnterObj(i.o) /\ Ev.kind = ""
     \/ i.a = "enterB" /\ EnterBackend(i.c) /\ ErrsOK("enterB")
     \/ i.a = "setcap" /\ SetCapacity(i.c) /\ ErrsOK("setcap")
     \/ i.a = "exit" /\ ExitTop /\ ErrsOK(last'.a)
     \/ i.a = "ext" /\ External(i.r, Norm(i.v))
  /\ ObsOK
  /\ l' = l + 1
  /\ tid' = tid

TInit ==
  /\ tid \in 1..Len(Traces)
  /\ l = 1
  /\ LET t == Traces[tid].init
     IN InitWith([r \in Files |-> Norm(t.docs[r])], [r \in Files |-> t.ex[r]], t.cap)

\* progress report: the harness takes the maximum l per tid
Report == PrintT(<<"AT", tid, l>>)
=============================================================================
