---------------------------------- MODULE Lin ----------------------------------
(***************************************************************************)
(* Level 1 for concurrent histories (C09, C13, C14): linearizability.      *)
(* A recorded history is a sequence of call / return events of several     *)
(* threads operating through handles (paths) on ONE document, closed by    *)
(* the final content of the backend.  It is accepted iff every operation   *)
(* can be given a linearization point between its call and its return at   *)
(* which it takes effect atomically with the sequential semantics of       *)
(* PyOps (so its result, every other result and the final content are      *)
(* those of executing the operations one at a time in some order).  The    *)
(* linearization step Lin(t) is internal: TLC searches for it.             *)
(***************************************************************************)
EXTENDS PyOps, Json, IOUtils, TLCExt
CONSTANTS Fam
VARIABLES doc, th, tid, l
lvars == <<doc, th, tid, l>>

Threads == {"t1", "t2", "t3"}
Idle == [st |-> "idle", op |-> [op |-> "none"], p |-> <<>>, ret |-> Null, hk |-> ""]
Traces == JsonDeserialize(IOEnv.TRACE_FILE)
Ev == Traces[tid].ev[l]

RECURSIVE Norm(_)
Norm(v) == IF v.t = "d" THEN D([k \in DOMAIN v.m |-> Norm(v.m[k])])
           ELSE IF v.t = "l" THEN L([i \in 1..Len(v.s) |-> Norm(v.s[i])])
           ELSE [t |-> v.t]
NormOp(o) == [f \in DOMAIN o |-> IF f \in {"x", "y"} THEN Norm(o[f]) ELSE o[f]]
NormPath(p) == [i \in 1..Len(p) |-> [k |-> p[i].k, i |-> p[i].i]]
ToSet(q) == {q[i] : i \in 1..Len(q)}

RetOK(m, g) ==
  IF m.t = "!" THEN /\ g.t = "!"
                    /\ \/ m.e = g.e
                       \/ m.e = "Rejected" /\ g.e \in {"TypeError", "ValueError"}
  ELSE IF m.t = "keys" THEN g.t = "keys" /\ m.ks = ToSet(g.ks) /\ Len(g.ks) = Cardinality(m.ks)
  ELSE IF m.t = "items" THEN g.t = "items" /\ D(m.m) = Norm([t |-> "d", m |-> g.m])
  ELSE IF m.t = "self" THEN g.t = "self"
  ELSE g.t \notin {"!", "keys", "items", "self"} /\ m = Norm(g)

Call == /\ l <= Len(Traces[tid].ev) /\ Ev.e = "call"
        /\ th[Ev.t].st = "idle"
        /\ th' = [th EXCEPT ![Ev.t] = [st |-> "called", op |-> NormOp(Ev.op), p |-> NormPath(Ev.p), ret |-> Null,
                                        hk |-> Ev.hk]]
        /\ l' = l + 1 /\ UNCHANGED <<doc, tid>>

\* the internal linearization point of thread t's pending operation
LinStep(t) ==
  /\ th[t].st = "called"
  /\ LET sub == Get(doc, th[t].p) IN
     /\ sub.t = th[t].hk          \* the handle still addresses a container of its kind
     /\ \E out \in Apply(sub, th[t].op, Fam) :
          /\ doc' = IF IsRead(th[t].op.op) THEN doc ELSE Put(doc, th[t].p, out.val)
          /\ th' = [th EXCEPT ![t] = [@ EXCEPT !.st = "lin", !.ret = out.ret]]
  /\ UNCHANGED <<tid, l>>

Ret == /\ l <= Len(Traces[tid].ev) /\ Ev.e = "ret"
       /\ th[Ev.t].st = "lin"
       /\ RetOK(th[Ev.t].ret, Ev.ret)
       /\ th' = [th EXCEPT ![Ev.t] = Idle]
       /\ l' = l + 1 /\ UNCHANGED <<doc, tid>>

Final == /\ l <= Len(Traces[tid].ev) /\ Ev.e = "final"
         /\ \A t \in Threads : th[t].st = "idle"
         /\ doc = Norm(Ev.doc)
         /\ l' = l + 1 /\ UNCHANGED <<doc, th, tid>>

TInit == /\ tid \in 1..Len(Traces) /\ l = 1
         /\ doc = Norm(Traces[tid].init)
         /\ th = [t \in Threads |-> Idle]
TNext == Call \/ Ret \/ Final \/ (\E t \in Threads : LinStep(t))
Report == PrintT(<<"AT", tid, l>>)
=============================================================================
