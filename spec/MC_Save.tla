-------------------------------- MODULE MC_Save --------------------------------
(***************************************************************************)
(* Save.tla instances: (1) model checking + export of every crash state    *)
(* (the crash points the harness then injects into the real code);         *)
(* (2) trace validation of the file-operation sequence of real saves.      *)
(***************************************************************************)
EXTENDS Save, Json, IOUtils, TLCExt
VARIABLES tid, l
tvars == <<cur, pc, target, tmp, crashed, tid, l>>

\* ---- (1) crash points
ExportCrash == (crashed' /\ ~crashed) =>
                 PrintT("CRASH " \o ToJson([file |-> cur, pc |-> pc, n |-> IF Atomic THEN tmp.n ELSE target[cur].n]))
MCInit == Init /\ tid = 0 /\ l = 0
MCNext == Next /\ UNCHANGED <<tid, l>>

\* ---- (2) trace validation: IOEnv.TRACE_FILE = [ [ev |-> <<[e |-> name, n |-> bytes class]...>>] ... ]
Traces == JsonDeserialize(IOEnv.TRACE_FILE)
Ev == Traces[tid].ev[l]
TInit == Init /\ tid \in 1..Len(Traces) /\ l = 1
TStep ==
  /\ l <= Len(Traces[tid].ev)
  /\ \/ Ev.e = "dumps" /\ (IF pc = "ser" THEN SerializeOK ELSE UNCHANGED svars)   \* other encodings: stutter
     \/ Ev.e = "dumps_fail" /\ SerializeFails
     \/ Ev.e = "open_tmp" /\ OpenTmp
     \/ Ev.e = "open_target" /\ OpenTrunc
     \/ Ev.e = "write" /\ WriteSome(Ev.n)
     \/ Ev.e = "close" /\ Close
     \/ Ev.e = "replace" /\ Replace
     \/ Ev.e = "next" /\ NextFile
  /\ l' = l + 1 /\ tid' = tid
Report == PrintT(<<"AT", tid, l, pc, cur>>)
=============================================================================
